"""C16 - the TZif and TZ-rule readers accept well-formed data and survive everything else."""
DESIGN = {
    "Tzif": dict(module="MC_Tzif", quick="MC_Tzif_quick.cfg", thorough="MC_Tzif_thorough.cfg", workers=8),
}
GEN = {
    "TzifRead": dict(module="Gen_Tzif", quick="Gen_Tzif_quick.cfg", thorough="Gen_Tzif_thorough.cfg", kind="tzifread",
                     simulate_quick="num=250", simulate_thorough="num=5000", workers=1),
}
PROPS = {
    "C16": dict(design=["Tzif"], drive="C16", gens=["TzifRead"], exhaustive=False,
                level_text="Tzif.tla contains a conforming TZif writer (Encode: header, 32-bit block, 64-bit block, footer; versions 1-3) and a three-valued reader "
                           "(Classify: WELL_FORMED / MALFORMED = the reject list of C16 / UNSPECIFIED = what RFC 8536 leaves open); PosixTz.tla contains the TZ-rule "
                           "grammar as Parse and Show. MC_Tzif model-checks Decode(Encode(z, v)) = z, that every proper prefix and every structural mutation class of "
                           "a conforming file is classified as the statement says, and Parse(Show(r)) = r on a rule family. Every byte string / TZ string fed to "
                           "chrono's readers (structured mutations, truncations, header-count extremes, random bytes, every system zoneinfo file, grammar-generated "
                           "and mutated TZ strings) is judged by the specification: well-formed => accepted with exactly the written transitions, types and rule; "
                           "malformed => rejected; never a panic, and every lookup on an accepted zone ends in a value or an error. TLC-generated zone models are "
                           "encoded by the specification's writer and replayed on the reader.",
                technique="TLA+ TZif writer/reader and TZ-rule grammar: TLC design check (round trip, mutation classes), trace validation of the real readers on "
                          "mutated and system files, replay of model-driven TZif files",
                assumptions=["TLC 1.8 and its Json/IOUtils overrides",
                             "harness parses the derived Debug output of chrono's private TimeZone (Zone::describe) into the zone structure",
                             "overflow checks and debug assertions are on in the harness build, so arithmetic overflow in the readers or lookups is a panic",
                             "allocation is observed by a counting allocator around each parse and compared with the bound 64*len + 4096 stated in the trace specification",
                             "no hang: each reader call is a plain function call inside the driver process, which runs under the orchestrator's timeout"]),
}


def _st_read(V):
    import importlib.util, os
    spec = importlib.util.spec_from_file_location("propdefs_c05_for_c16", os.path.join(os.path.dirname(os.path.abspath(__file__)), "c05.py"))
    m = importlib.util.module_from_spec(spec)
    spec.loader.exec_module(m)
    fake = {"ok": {"leaps": 0, "rule": {"k": "none"}, "trans": [], "types": [{"abbr": [85, 84, 67], "dst": False, "off": 0}]}}
    return m._corrupt_and_check(V, "C16", "Trace_TzRead", [
        (lambda e: e["op"] == "tzif" and e["base"], lambda e: e.__setitem__("r", {"err": "rejected"})),                               # a conforming file refused
        (lambda e: e["op"] == "tzif" and e["kind"].startswith("magic"), lambda e: e.__setitem__("r", fake)),                          # bad magic accepted
        (lambda e: e["op"] == "tzif" and e["kind"].startswith("count:h2:timecnt") and "err" in e["r"], lambda e: e.__setitem__("r", fake)),  # a count that disagrees with the data accepted
        (lambda e: e["op"] == "tzif" and e["base"] and len(e["q"]) > 3, lambda e: e["q"][2].__setitem__("r", "panic")),                # a lookup on an accepted zone panics
        (lambda e: e["op"] == "tzif" and e["base"] and e["r"].get("ok", {}).get("trans"), lambda e: e["r"]["ok"]["trans"][0].__setitem__("ty", 1 + e["r"]["ok"]["trans"][0]["ty"] % 2)),  # structure differs from what was written
        (lambda e: e["op"] == "tzif" and not e["base"] and "peak" in e, lambda e: e.__setitem__("peak", 64 * e["len"] + 4097)),       # allocation beyond the bound
    ], "TzRead")


SELFTESTS = [_st_read]
