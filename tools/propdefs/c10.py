"""C10 - RFC 3339 output is conformant and input acceptance is exact."""
DESIGN = {
    "Rfc3339": dict(module="MC_Rfc3339", quick="MC_Rfc3339_quick.cfg", thorough="MC_Rfc3339_thorough.cfg", workers=4),
}
GEN = {
    "Rfc3339": dict(module="Gen_Rfc3339", quick="Gen_Rfc3339_quick.cfg", thorough="Gen_Rfc3339_thorough.cfg", kind="rfc3339", workers=1),
}
PROPS = {
    "C10": dict(design=["Rfc3339"], drive="C10", gens=["Rfc3339"], exhaustive=False,
                level_text="Rfc3339.tla gives the RFC 3339 date-time language twice - constructively (Gen over fields and syntax choices, with Denoted) and analytically "
                           "(Accepts / Value over code points) - plus the renderer Write(dt, precision, useZ). MC_Rfc3339 model-checks that generated strings are accepted "
                           "with the denoted value, that EVERY single-character edit (insert / delete / duplicate / replace over an 18-symbol alphabet / transpose) of the "
                           "generated strings is accepted iff it is generable with the same value (double entry), and the renderer's laws (in the language, truncation, Z "
                           "only on request for offset zero, reads back). Trace validation judges to_rfc3339 / to_rfc3339_opts x 5 precisions x use_z (text and parse-back) "
                           "and parse_from_rfc3339 on valid, mutated and arbitrary Unicode strings by the recogniser; TLC-generated strings and their edits are replayed on "
                           "the real parser with the specification's verdict.",
                technique="TLA+ grammar spec with generator and recogniser (double entry): TLC design check, trace validation of recorded writer/parser calls, replay of "
                          "TLC-generated strings on parse_from_rfc3339",
                assumptions=["TLC 1.8 with the Json/IOUtils community modules", "text is passed as Unicode code points",
                             "second 60 is in the language on any minute (RFC 3339 leaves the leap-second table to the application; chrono documents :60 as a leap second)",
                             "parse-back after a precision below the value's is compared with the value cut (never rounded) to that precision",
                             "domain of the writer obligations: wall-clock year 0..9999 and whole-minute offsets, as the statement says"]),
}


def _selftest(V):
    from textselftest import corruption_selftest, bump
    def sub(e, k, old, new):
        e[k][e[k].index(old)] = new
    C = [
        ("T -> space in to_rfc3339", lambda e: e["op"] == "to_rfc3339", lambda e: sub(e, "text", 84, 32)),
        ("millisecond digit rounded up", lambda e: e["op"] == "to_rfc3339_opts" and e["sf"] == "Millis" and e["text"][22] < 57, lambda e: bump(e["text"], 22)),
        ("Z without request", lambda e: e["op"] == "to_rfc3339_opts" and not e["z"] and e["off"] == 0, lambda e: e.__setitem__("text", e["text"][:-6] + [90])),
        ("parse-back offset differs", lambda e: e["op"] == "to_rfc3339_opts" and e["sf"] == "Nanos", lambda e: bump(e["back"]["ok"], "off", 60)),
        ("parse-back refused", lambda e: e["op"] == "to_rfc3339_opts" and e["sf"] == "AutoSi", lambda e: e.__setitem__("back", {"err": 1})),
        ("valid string refused", lambda e: e["op"] == "parse3339" and e["src"] == "valid", lambda e: e.__setitem__("r", {"err": "Invalid"})),
        ("mutant accepted", lambda e: e["op"] == "parse3339" and e["src"] == "mut" and "err" in e["r"], lambda e: e.__setitem__("r", {"ok": {"u": {"n": 730000, "secs": 0, "frac": 0}, "off": 0}})),
        ("accepted mutant with a value 1 ns off", lambda e: e["op"] == "parse3339" and e["src"] == "mut" and "ok" in e["r"], lambda e: bump(e["r"]["ok"]["u"], "frac")),
        ("accepted string with the offset sign flipped", lambda e: e["op"] == "parse3339" and e["src"] == "valid" and "ok" in e["r"] and e["r"]["ok"]["off"] != 0, lambda e: e["r"]["ok"].__setitem__("off", -e["r"]["ok"]["off"])),
        ("non-ASCII string accepted", lambda e: e["op"] == "parse3339" and e["src"] == "uni" and "err" in e["r"], lambda e: e.__setitem__("r", {"ok": {"u": {"n": 1, "secs": 0, "frac": 0}, "off": 0}})),
    ]
    return corruption_selftest(V, "C10", "C10", "Trace_Rfc3339", C)


SELFTESTS = [_selftest]
