"""C01 - calendar forms agree."""
DESIGN = {
    "Calendar": dict(module="MC_Calendar", quick="MC_Calendar_quick.cfg", thorough="MC_Calendar_thorough.cfg", workers=8),
}
GEN = {}
LEMMAS = {
    "Periodic400": dict(file="Periodic400.tla", invs=["Periodic", "WeekdayPeriodic", "YearLength", "MonthLength"]),
}
PROPS = {
    "C01": dict(design=["Calendar"], lemmas=["Periodic400"], drive="C01", exhaustive=False,
                level_text="Calendar.tla defines the proleptic Gregorian calendar from first principles; MC_Calendar model-checks the property's own statement "
                           "(bijection of the four forms, exact constructor domains, order, successor, 400-year periodicity) on bounded windows; every recorded "
                           "NaiveDate call (all forms of every date in the judged windows, constructor argument lattice, random tuples, order) is validated "
                           "by TLC against the spec, and a Rust sweep extends the judged windows to all 191,491,529 dates by the periodicity lemma.",
                technique="TLA+ Calendar spec: TLC design check + trace validation of recorded NaiveDate calls; exhaustive date sweep closed by a periodicity lemma",
                assumptions=["TLC 1.8 and its Json/IOUtils overrides",
                             "harness projection of NaiveDate to its day number via num_days_from_ce (itself judged on every date event)",
                             "periodic-extension argument: the Rust sweep checks all 191,491,529 dates against the date a whole number of 400-year cycles away; "
                             "TLC judges the base window and both range ends; the lemma Periodic is checked by MC_Calendar"]),
}
