"""Binding demonstrations (vacuity guard) for the arithmetic properties built by the coordinator: corrupt single
fields of recorded events and demand that TLC rejects exactly those events (`python3 tools/verif.py selftest`)."""
import os, sys
sys.path.insert(0, os.path.dirname(os.path.dirname(os.path.abspath(__file__))))
import textselftest as T


def _drop_sessions(V, pid, workload, module, corruptions):
    """corruption_selftest over the stateless events only (register-based episodes need their whole context)."""
    orig = T.json.loads

    def loads(s, **kw):
        e = orig(s, **kw)
        if isinstance(e, dict) and str(e.get("op", "")).startswith(("s.", "it.")):
            return {"op": "__skip__"}
        return e
    T.json.loads = loads
    try:
        # the slice builder keeps the first events of every class; the placeholder class is rejected (unknown op), so remove it
        real = T._rejects

        def rej(V2, module2, path):
            lines = [l for l in open(path) if '"__skip__"' not in l]
            open(path, "w").writelines(lines)
            return real(V2, module2, path)
        T._rejects = rej
        try:
            return T.corruption_selftest(V, pid, workload, module, corruptions)
        finally:
            T._rejects = real
    finally:
        T.json.loads = orig


def inc(field, d=1):
    def m(e):
        e[field] = e[field] + d
    return m


def inc_big(field):
    def m(e):
        v = e[field]
        if v["mag"]:
            v["mag"][0] = (v["mag"][0] + 1) % 1000
        else:
            v["mag"] = [1]
    return m


def set_none(field):
    def m(e):
        e[field] = {"none": 1}
    return m


def has_r_rec(op):
    return lambda e: e.get("op") == op and isinstance(e.get("r"), dict) and "none" not in e["r"]


def _st(V):
    rc = 0
    rc |= T.corruption_selftest(V, "C01", "C01", "Trace_Calendar", [
        ("weekday+1", lambda e: e.get("op") == "date" and e["wd"] < 6, inc("wd")),
        ("iso week+1", lambda e: e.get("op") == "date" and e["iw"] < 50, inc("iw")),
        ("succ off by one", lambda e: e.get("op") == "date" and e["succ"] != -2000000000, inc("succ")),
        ("from_ymd accepts a non-date", lambda e: e.get("op") == "ymd" and e["r"] == -2000000000, lambda e: e.__setitem__("r", 730120)),
        ("from_yo refuses a date", lambda e: e.get("op") == "yo" and e["r"] != -2000000000, lambda e: e.__setitem__("r", -2000000000)),
        ("order flipped", lambda e: e.get("op") == "cmp" and e["c"] == -1, lambda e: e.__setitem__("c", 1)),
        ("panic", lambda e: e.get("op") == "iso", lambda e: (e.pop("r"), e.__setitem__("panic", "boom"))),
    ])
    rc |= T.corruption_selftest(V, "C07", "C07", "Trace_TimeOfDay", [
        ("add: one ns late", lambda e: e.get("op") == "t.add" and e["r"]["frac"] < 999999998, lambda e: e["r"].__setitem__("frac", e["r"]["frac"] + 1)),
        ("sub: carry lost", lambda e: e.get("op") == "t.sub" and e["carry"]["mag"], lambda e: e.__setitem__("carry", {"neg": False, "mag": []})),
        ("since: sign", lambda e: e.get("op") == "t.since" and e["r"]["mag"], lambda e: e["r"].__setitem__("neg", not e["r"]["neg"])),
        ("leap second accepted on second 58", lambda e: e.get("op") == "t.hmsn" and "none" in e["r"], lambda e: e.__setitem__("r", {"secs": 1, "frac": 1})),
        ("with_hour changes minutes", has_r_rec("t.with"), lambda e: e["r"].__setitem__("secs", (e["r"]["secs"] + 60) % 86400)),
    ])
    rc |= _drop_sessions(V, "C06", "C06", "Trace_Duration", [
        ("add off by one ns", has_r_rec("d.add"), inc_big("r")),
        ("mul accepted out of range", lambda e: e.get("op") == "d.mul" and "none" in e["r"], lambda e: e.__setitem__("r", {"neg": False, "mag": [1]})),
        ("div off by 5", has_r_rec("d.div"), lambda e: e["r"]["mag"].__setitem__(0, (e["r"]["mag"][0] + 5) % 1000) if e["r"]["mag"] else e["r"].__setitem__("mag", [5])),
        ("num_seconds floor", lambda e: e.get("op") == "d.acc" and e["a"]["neg"] and e["sub"]["mag"], inc_big("secs")),
        ("text", lambda e: e.get("op") == "d.show" and len(e["text"]) > 4, lambda e: e["text"].__setitem__(2, e["text"][2] + 1)),
        ("new refuses a valid pair", has_r_rec("d.new"), set_none("r")),
    ])
    rc |= T.corruption_selftest(V, "C02", "C02", "Trace_Instant", [
        ("from_timestamp one ns off", has_r_rec("ts.from"), lambda e: e["r"].__setitem__("frac", (e["r"]["frac"] + 1) % 1000000000)),
        ("millis truncated instead of floored", lambda e: e.get("op") == "dt.ts" and e["ms"]["neg"], inc_big("ms")),
        ("nanos present outside i64", lambda e: e.get("op") == "dt.ts" and "none" in e["ns"], lambda e: e.__setitem__("ns", {"neg": False, "mag": [7]})),
        ("leap nanos accepted off second 59", lambda e: e.get("op") == "ts.from2" and "none" in e["r"], lambda e: e.__setitem__("r", {"n": 719163, "secs": 0, "frac": 0})),
    ])
    rc |= _drop_sessions(V, "C03", "C03", "Trace_Instant", [
        ("add: a day late", has_r_rec("dt.add"), lambda e: e["r"].__setitem__("n", e["r"]["n"] + 1)),
        ("sub refuses", has_r_rec("dt.sub"), set_none("r")),
        ("since off by one", lambda e: e.get("op") == "dt.since", inc_big("r")),
        ("add_days wraps", lambda e: e.get("op") == "date.add_days" and e["r"] == -2000000000, lambda e: e.__setitem__("r", 1)),
        ("date + duration rounds up", lambda e: e.get("op") == "date.add_dur" and e["r"] != -2000000000 and e["r"] < 95745398, inc("r")),
    ])
    rc |= T.corruption_selftest(V, "C17", "C17", "Trace_Rounding", [
        ("result one ns off the multiple", lambda e: e.get("op") == "round" and "ok" in e["r"] and e["r"]["ok"]["frac"] < 999999998, lambda e: e["r"]["ok"].__setitem__("frac", e["r"]["ok"]["frac"] + 1)),
        ("error swallowed", lambda e: e.get("op") == "round" and "err" in e["r"], lambda e: e.__setitem__("r", {"ok": e["u"]})),
        ("subsec trunc rounds", lambda e: e.get("op") == "subsec.trunc" and e["digits"] < 9 and e["r"]["frac"] < 999999000, lambda e: e["r"].__setitem__("frac", e["r"]["frac"] + 1)),
    ])
    rc |= T.corruption_selftest(V, "C08", "C08", "Trace_DateOps", [
        ("add_months: day not clamped", lambda e: e.get("op") == "add_months" and e["r"] != -2000000000, inc("r")),
        ("with: wrong field kept", lambda e: e.get("op") == "with" and e["r"] != -2000000000, inc("r", 31)),
        ("week: first day off", lambda e: e.get("op") == "week" and e["first"] != -2000000000, inc("first", -1)),
        ("nth weekday accepts sixth", lambda e: e.get("op") == "nth" and e["r"] == -2000000000, lambda e: e.__setitem__("r", 730120)),
        ("years_since off by one", lambda e: e.get("op") == "years_since" and e["r"] >= 0, inc("r")),
    ])
    rc |= _drop_sessions(V, "C04", "C04", "Trace_DateTimeTz", [
        ("wall clock hour", lambda e: e.get("op") == "wall" and e["h"] < 23, inc("h")),
        ("with_timezone moved the instant", lambda e: e.get("op") == "with_tz", lambda e: e["r"].__setitem__("secs", (e["r"]["secs"] + 1) % 86400)),
        ("equal instants hash differently", lambda e: e.get("op") == "rel" and e["eq"], lambda e: e.__setitem__("hasheq", False)),
        ("with_day acts on UTC", has_r_rec("tzwith"), lambda e: e["r"].__setitem__("n", e["r"]["n"] + 1)),
        ("from_local ignores the offset", lambda e: e.get("op") == "from_local" and isinstance(e.get("r"), dict) and "none" not in e["r"] and e["off"] != 0, lambda e: e.__setitem__("r", e["w"])),
    ])
    rc |= T.corruption_selftest(V, "C04", "C04", "Trace_DateTz", [
        ("Date<Tz>: succ skips a day", has_r_rec("dz.succ"), lambda e: e["r"].__setitem__("n", e["r"]["n"] + 1)),
        ("Date<Tz>: offset lost by an operation", has_r_rec("dz.add"), lambda e: e["r"].__setitem__("off", e["r"]["off"] + 60)),
        ("Date<Tz>: equality looks at the offset", lambda e: e.get("op") == "dz.rel" and e["eq"], lambda e: e.__setitem__("hasheq", False)),
        ("Date<Tz>: and_time reads the date as UTC", lambda e: e.get("op") == "dz.and_time" and "none" not in e["r"] and e["x"]["off"] != 0, lambda e: e["r"].__setitem__("secs", e["t"]["secs"])),
        ("Date<Tz>: text", lambda e: e.get("op") == "dz.show", lambda e: e["debug"].__setitem__(1, e["debug"][1] + 1)),
    ])
    rc |= T.corruption_selftest(V, "C15", "C15", "Trace_Totality", [
        ("panic in a fallible op", lambda e: e.get("op") == "NaiveDate.from_ymd_opt", lambda e: (e.pop("out"), e.pop("v", None), e.__setitem__("panic", "boom"))),
        ("iterator did not end", lambda e: e.get("op") == "StrftimeItems.count", lambda e: e["v"].__setitem__("capped", True)),
        ("out-of-range duration built", lambda e: e.get("op") == "TimeDelta.checked_add" and e.get("out") == "ok", lambda e: e["v"].__setitem__("d", {"neg": False, "mag": [0, 0, 808, 775, 854, 36, 372, 223, 9]})),
        ("invalid time built", lambda e: e.get("op") == "NaiveTime.from_hms_nano_opt" and e.get("out") == "ok", lambda e: e["v"]["t"].__setitem__("secs", 86400)),
    ])
    return rc


SELFTESTS = [_st]


def _design_mutants(V):
    """Design-level non-vacuity: an implementation-shaped model with a named defect must FAIL its refinement check."""
    rc = 0
    for module, cfg, inv, what in [
        ("MC_TimeOfDay", "MC_TimeOfDay_mutant.cfg", "ImplRefines", "leap guard frac >= 10^9 weakened to > (seeded change C07-m1)"),
        ("MC_Duration", "MC_Duration_prefix.cfg", "ImplRefines", "checked_mul before fix fce739b (result compared with the i64 limits only)"),
    ]:
        r = V.run_tlc(module, cfg, workers=4, timeout=600)
        ok = ("Invariant %s is violated" % inv) in r["out"]
        V.log("SELFTEST design mutant %-28s %s: %s" % (cfg, "ok - counterexample found" if ok else "FAIL - not detected", what))
        rc |= 0 if ok else 1
    return rc


SELFTESTS.append(_design_mutants)
