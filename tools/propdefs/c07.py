"""C07 - time-of-day arithmetic and leap-second operands."""
DESIGN = {
    "TimeOfDay": dict(module="MC_TimeOfDay", quick="MC_TimeOfDay_quick.cfg", thorough="MC_TimeOfDay_thorough.cfg", workers=8),
}
PROPS = {
    "C07": dict(lemmas=["ClockLaws_C07"], design=["TimeOfDay"], drive="C07",
                level_text="TimeOfDay.tla defines NaiveTime arithmetic by a time line with one inserted second (not by the code's branches); MC_TimeOfDay checks "
                           "the documented leap-second examples as ASSUMEs and the laws of the statement (sub = add of the negation, antisymmetric difference, carry in whole "
                           "days, plain modular arithmetic without a leap operand) on the lattice of case boundaries; every recorded NaiveTime / NaiveDateTime call "
                           "(constructors with u32 extremes, accessors, with_*, overflowing_add/sub_signed, operators, signed_duration_since, offsets) is validated by TLC.",
                technique="TLA+ time-line spec of leap-second arithmetic: TLC design check + trace validation of recorded NaiveTime calls (BigInt durations)",
                assumptions=["TLC 1.8 and its Json/IOUtils overrides", "projection of NaiveTime to (num_seconds_from_midnight, nanosecond) and of TimeDelta to num_seconds*10^9+subsec_nanos"]),
}
