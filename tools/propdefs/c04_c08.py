"""C08 (month stepping, field replacement, week helpers) and C04 (zone-aware date-times): DateOps.tla / DateTimeTz.tla."""
DESIGN = {
    "DateOps": dict(module="MC_DateOps", quick="MC_DateOps_quick.cfg", thorough="MC_DateOps_thorough.cfg", workers=8),
}
_A = ["TLC 1.8 and its Json/IOUtils overrides", "projection of NaiveDate to its day number, of DateTime<Tz> to (naive_utc, offset seconds)"]
PROPS = {
    "C08": dict(gens=["Session_C08"], design=["DateOps", "Calendar"], drive="C08", trace_cfgs={"Trace_DateTimeTz": "Trace_DateTimeTz.cfg"},
                level_text="DateOps.tla defines month stepping (exact year-month move, clamped day), single-field replacement, week bounds, n-th weekday, years elapsed, quarter, "
                           "CE year and month lengths on top of the first-principles Calendar; MC_DateOps checks the statement's laws and documentation anchors; every recorded call on "
                           "NaiveDate/NaiveDateTime with u32/i32 extremes is validated by TLC.",
                technique="TLA+ DateOps spec: TLC design check + trace validation of recorded month/field/week operations", assumptions=_A),
    "C04": dict(lemmas=["ClockLaws_C04"], gens=["Session_C04"], design=["DateOps", "Instant"], drive="C04", trace_cfgs={"Trace_DateTimeTz": "Trace_DateTimeTz.cfg"},
                level_text="DateTimeTz.tla models a zone-aware value as (UTC instant, offset) with the wall clock derived (one day of headroom beyond the date range); MC_DateOps checks "
                           "the round trips and that replacement/stepping act on the wall clock; recorded constructions, accessors, comparisons/hashes, with_* / day / month stepping at both "
                           "range ends and chained sessions under the invariant 'the instant never leaves MIN_UTC..MAX_UTC' are validated by TLC.",
                technique="TLA+ DateTimeTz spec: TLC design check + trace validation incl. operation-chain sessions under an instant-range invariant", assumptions=_A),
}
