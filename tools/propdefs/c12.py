"""C12 - every strftime specifier renders the documented field."""
import json, os, re, copy

DESIGN = {
    "StrftimeItems": dict(module="MC_StrftimeItems", quick="MC_StrftimeItems_quick.cfg", thorough="MC_StrftimeItems_thorough.cfg", workers=8),
    "Strftime": dict(module="MC_Strftime", quick="MC_Strftime_quick.cfg", thorough="MC_Strftime_thorough.cfg", workers=8),
}
GEN = {}
PROPS = {
    "C12": dict(design=["StrftimeItems", "Strftime"], drive="C12", exhaustive=False,
                level_text="StrftimeItems.tla specifies the format-string tokeniser (item alphabet, padding overrides, composite expansions, one Err item per bad "
                           "specifier, lenient mode) as a function and as the <<remainder, queue>> state machine; Strftime.tla specifies what every item prints "
                           "(RenderItem: a set of admissible texts per item, written from the specifier table, the modifier table, the notes and the repository's "
                           "doc tests; {} = formatting must fail). TLC model-checks the tokeniser on all strings over a 12/20-letter alphabet up to length 3/4 "
                           "(progress variant, item-count bound, function = machine, literal text copied) and the renderer on bounded windows of days, clock "
                           "times, offsets and instants (composites = documented expansion, %U/%W/%V against counting definitions over Calendar, width / "
                           "truncation / rounding rules, ~120 ASSUME anchors from the documentation). Every recorded format() outcome of the real code - every "
                           "specifier x {none,-,_,0,#} on a boundary lattice of NaiveDate, NaiveTime, NaiveDateTime and DateTime<FixedOffset> values, plus seeded "
                           "random format strings - and every recorded StrftimeItems item list is then validated by TLC against the specification.",
                technique="TLA+ strftime specification (tokeniser state machine + per-item rendering relation): TLC design checks, then trace validation of "
                          "recorded format()/write_to outcomes and StrftimeItems item lists of the real code",
                assumptions=["TLC 1.8 and its Json/IOUtils overrides",
                             "harness projection: NaiveDate -> num_days_from_ce, NaiveTime -> (seconds of day, nanosecond field), DateTime<FixedOffset> -> UTC date-time + "
                             "offset (the specification derives the wall clock); items -> records via their Debug names",
                             "oracle precedence: specifier table and notes of src/format/strftime.rs; where prose and test_strftime_docs differ the doc test wins "
                             "(%f zero-padded to 9); where both are silent every reading is admitted (space-padded signed years: sign inside or outside the "
                             "width; %Z: '%:z' form or the offset's Display form; %s with an explicit padding modifier: unpadded or width 9); %y / %g are not "
                             "judged for negative years",
                             "offset minutes are 'rounded to the nearest minute' with :30 rounding away from zero (TextForms!OffsetText, shared with the other text forms)",
                             "the lenient-mode queue leak after a padded composite specifier (%-D) is modelled as the named deviation PadOnCompositeLeaksQueue "
                             "(outside the listed properties; formatting fails in strict mode either way)",
                             "bounded: design checks use small alphabets / windows; conformance covers the driven lattice and the seeded random format strings only; "
                             "default (English) locale only"]),
}


def _corrupt_selftest(V, workload, module, mutate, label):
    """Drives the quick workload, corrupts one event of the first chunk and demands that TLC rejects exactly that event."""
    out = os.path.join(V.WORK, "selftest-" + workload)
    V.run_drive(workload, "quick", 20261001, out)
    chunk = sorted(p for p in os.listdir(out) if p.startswith(module))[0]
    lines = [json.loads(l) for l in open(os.path.join(out, chunk))][:300]
    idx = mutate(lines)
    p = os.path.join(out, "_corrupted.ndjson")
    with open(p, "w") as f:
        for l in lines:
            f.write(json.dumps(l) + "\n")
    r = V.run_tlc(module, "Trace.cfg", env={"TRACE": p})
    rej = [int(x) for x in re.findall(r'<<"REJECT", (\d+)>>', r["out"])]
    ok = rej == [idx] and '<<"CONSUMED", %d>>' % len(lines) in r["out"]
    V.log("  selftest %-40s corrupted event %d, TLC rejected %s  %s" % (label, idx, rej, "ok" if ok else "FAILED"))
    return 0 if ok else 2


def _c12_mutate(lines):
    k = [i for i, e in enumerate(lines) if e["op"] == "fmt" and "ok" in e["r"] and e["r"]["ok"]][150]
    lines[k]["r"]["ok"][-1] += 1
    lines[k]["w"] = copy.deepcopy(lines[k]["r"])
    return k + 1


SELFTESTS = [lambda V: _corrupt_selftest(V, "C12", "Trace_Strftime", _c12_mutate, "C12 one character of a formatted text")]
