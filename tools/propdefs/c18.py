"""C18 - Local uses the zone the environment names, and notices changes.

D  MC_LocalCache (the per-thread zone cache as a state machine: Fresh / FreshOnNewThread / OneZonePerConversion),
   MC_CacheImpl (implementation-shaped model of unix.rs against the same clauses).
R  Gen_LocalCache enumerates (thorough) or samples by simulation (quick) histories of environment writes, waits and
   conversions with the zone the specification says each conversion must observe; every history runs in its own
   `tzchild` process (real set_var / sleep / threads / chrono::Local), many at a time since they mostly sleep.
T  the children's logs (measured times) are validated by Trace_LocalCache with timing bands.
The `extra` callable below does R and T because neither is plain drive+TLC: the generator has to run first, the
children are processes, some of them inside `unshare -m` with a private /etc.
"""
import os, sys, json, re, struct, subprocess, shutil, shlex, time, math, random
from concurrent.futures import ThreadPoolExecutor

DESIGN = {
    "LocalCache": dict(module="MC_LocalCache", quick="MC_LocalCache_quick.cfg", thorough="MC_LocalCache_thorough.cfg", workers=8),
    "CacheImpl": dict(module="MC_CacheImpl", quick="MC_CacheImpl_quick.cfg", thorough="MC_CacheImpl_thorough.cfg", workers=8),
}
FAMILIES = [   # name, cfg, histories sampled in the quick tier (simulation), thorough: None = all of them / n = sampled, what it is
    ("main", "Gen_LocalCache_main.cfg", 64, None, "file path / :path / zone name / POSIX rule / empty / garbage, depth <= 5, on the host"),
    ("vals", "Gen_LocalCache_vals.cfg", 10, None, ":name, fixed-offset file, unreadable paths, a file that is not TZif, :rule; depth <= 3"),
    ("pad", "Gen_LocalCache_pad.cfg", 12, None, "a rule X vs :X (same text behind a colon names a file that does not exist), blank-padded file paths, a lone blank; depth <= 3"),
    ("band", "Gen_LocalCache_band.cfg", 10, None, "with a 1.0 s wait (inside the fuzzy band: either outcome), depth <= 4"),
    ("deep", "Gen_LocalCache_deep.cfg", 16, 2000, "two files + unset, waits 0.6 s / 1.25 s, main thread only, length 6..8 (A-B-A changes, several windows); always sampled"),
    ("ns", "Gen_LocalCache_ns.cfg", 16, None, "private mount namespace: non-UTC system zone, /etc/localtime replaced (Touch), depth <= 5"),
    ("nosys", "Gen_LocalCache_nosys.cfg", 4, None, "private mount namespace without /etc/localtime: '... and finally UTC', depth <= 3"),
]
# a few fixed step sequences per environment that are judged by trace validation only (no expectation attached here):
# they make sure every tier contains a Touch, a fallback to a non-UTC system zone and a band wait
PINNED = {
    "ns": [
        [("conv", "utc", "main"), ("touch",), ("conv", "utc", "main"), ("conv", "local", "new"), ("wait", 1250), ("conv", "local", "main")],
        [("setenv", "garbage"), ("conv", "utc", "main"), ("unset",), ("conv", "local", "main"), ("touch",), ("wait", 1250), ("conv", "utc", "main"), ("conv", "utc", "new")],
        [("setenv", "colonMissing"), ("conv", "local", "new"), ("setenv", "absA"), ("conv", "utc", "main"), ("wait", 200), ("unset",), ("conv", "utc", "main"), ("wait", 1250), ("conv", "local", "main")],
        [("conv", "local", "main"), ("wait", 1250), ("touch",), ("conv", "local", "main"), ("wait", 200), ("conv", "utc", "main"), ("wait", 1000), ("conv", "utc", "main")],
        # values that name nothing fall back to the (non-UTC) system zone: a lone blank, a blank-padded path, :rule-text
        [("setenv", "blank"), ("conv", "utc", "new"), ("setenv", "preAbsA"), ("conv", "local", "new"), ("setenv", "colonFullRule"), ("conv", "utc", "new"), ("setenv", "postAbsA"), ("conv", "utc", "main")],
    ],
    "nosys": [
        [("conv", "utc", "main"), ("setenv", "garbage"), ("conv", "utc", "new"), ("setenv", "absA"), ("wait", 1250), ("conv", "local", "main"), ("unset",), ("conv", "local", "new")],
    ],
    "plain": [
        # the reuse window starts at the last CHECK, not at the last conversion: three conversions 0.6 s apart
        [("conv", "utc", "main"), ("setenv", "absA"), ("wait", 600), ("conv", "utc", "main"), ("wait", 600), ("conv", "utc", "main"), ("wait", 600), ("conv", "local", "main")],
        # A-B-A: the remembered source must follow every reload (unset -> file -> unset, and file A -> file B -> file A)
        [("conv", "utc", "main"), ("setenv", "absA"), ("wait", 1250), ("conv", "utc", "main"), ("unset",), ("wait", 1250), ("conv", "utc", "main")],
        [("setenv", "absA"), ("conv", "local", "main"), ("setenv", "colonB"), ("wait", 1250), ("conv", "local", "main"), ("setenv", "absA"), ("wait", 1250), ("conv", "local", "main"), ("conv", "utc", "new")],
        [("setenv", "absA"), ("conv", "utc", "main"), ("setenv", "colonB"), ("wait", 1000), ("conv", "utc", "main"), ("wait", 200), ("conv", "local", "main"), ("wait", 1250), ("conv", "local", "main")],
        [("setenv", "rule"), ("conv", "local", "main"), ("setenv", "name"), ("conv", "local", "new"), ("wait", 200), ("conv", "utc", "main"), ("wait", 1250), ("conv", "utc", "main"), ("setenv", "badfile"), ("conv", "utc", "new")],
        # valid X -> unusable value -> the very same X again, one second apart each: the return to X must be honoured
        [("setenv", "rule"), ("conv", "utc", "main"), ("wait", 1250), ("setenv", "garbage"), ("conv", "utc", "main"), ("wait", 1250), ("setenv", "rule"), ("wait", 1250), ("conv", "utc", "main"), ("conv", "local", "main")],
        [("setenv", "name"), ("conv", "local", "main"), ("wait", 1250), ("setenv", "colonMissing"), ("conv", "local", "main"), ("wait", 1250), ("setenv", "name"), ("wait", 1250), ("conv", "local", "main"), ("conv", "utc", "new")],
        # X <-> :X for a POSIX rule X, and a path <-> the same path behind a blank: different strings naming different sources, a second apart
        [("setenv", "rule"), ("conv", "utc", "main"), ("setenv", "colonFullRule"), ("wait", 1250), ("conv", "utc", "main"), ("setenv", "rule"), ("wait", 1250), ("conv", "local", "main"), ("conv", "utc", "new")],
        [("setenv", "absA"), ("conv", "utc", "main"), ("setenv", "preAbsA"), ("wait", 1250), ("conv", "utc", "main"), ("setenv", "absA"), ("wait", 1250), ("conv", "local", "main"), ("setenv", "postAbsA"), ("wait", 1250),
         ("conv", "local", "main"), ("setenv", "preColonB"), ("conv", "utc", "new"), ("setenv", "blank"), ("conv", "utc", "new")],
        # every kind of TZ value once, each read by a fresh thread (the resolution order of the statement, one clause at a time)
        [("setenv", "colonName"), ("conv", "utc", "new"), ("setenv", "name"), ("conv", "local", "new"), ("setenv", "fixedF"), ("conv", "utc", "new"), ("setenv", "colonB"), ("conv", "local", "new"),
         ("setenv", "absA"), ("conv", "utc", "new"), ("setenv", "rule"), ("conv", "utc", "new")],
        [("setenv", "empty"), ("conv", "utc", "new"), ("setenv", "garbage"), ("conv", "local", "new"), ("setenv", "colonMissing"), ("conv", "utc", "new"), ("setenv", "missing"), ("conv", "utc", "new"),
         ("setenv", "badfile"), ("conv", "local", "new"), ("setenv", "colonRule"), ("conv", "utc", "new"), ("setenv", "colonName"), ("conv", "local", "new")],
    ],
}
# documented in the shape of GEN entries; they are run by `extra` (a history is a process, not a step of a replayer),
# so PROPS["C18"] has no "gens"
GEN = {"LocalCache_" + f[0]: dict(module="Gen_LocalCache", quick=f[1], thorough=f[1], kind="process:tzchild", simulate_quick="num=%d" % f[2],
                                      **({"simulate_thorough": "num=%d" % f[3]} if f[3] else {})) for f in FAMILIES}
SLACK_US = 150_000       # a run is "nominal" (comparable with the generator's expectation) if it overshot its sleeps by less
CLOCK_US = 20_000        # wall clock and monotonic clock may disagree by this much per step, else the wall clock was stepped
ATTEMPTS = 3

PROPS = {
    "C18": dict(design=["LocalCache", "CacheImpl"], exhaustive=False,
                trace_cfgs={"Trace_LocalCache": "Trace_LocalCache.cfg"},
                extra=lambda tier, seed, outdir: extra(tier, seed, outdir),
                level_text="LocalCache.tla models TZ, /etc/localtime, the clock and the per-thread zone cache of chrono::Local as a state machine whose ZoneOf is "
                           "the resolution order of the statement (ASSUMEs pin it); MC_LocalCache checks Fresh, FreshOnNewThread and OneZonePerConversion on every "
                           "interleaving of writes, ticks, conversions and spawns for 2 threads, 2-3 TZ values + unset, one replacement of /etc/localtime and 8-10 "
                           "quarter-second ticks; MC_CacheImpl checks an implementation-shaped model of unix.rs against the same clauses. Gen_LocalCache then "
                           "enumerates all histories to depth 5 over {6 kinds of TZ value, unset, wait 0.2 s, wait 1.25 s, convert either way, spawn-and-convert} "
                           "(quick: a seeded simulation sample) plus smaller families (more TZ kinds, a 1.0 s wait, a private mount namespace with a non-UTC system "
                           "zone that is replaced, a namespace without /etc/localtime); each history runs in its own process against the real chrono with real "
                           "set_var, sleeps and threads, the observed offsets (zones with pairwise distinct offsets, probe next to a transition so that the offset "
                           "also identifies the direction) are compared with the specification's expectation, and the logs with measured times are validated by "
                           "TLC against Trace_LocalCache (reuse required below 0.9 s, check required above 1.1 s of measured age, either in between).",
                technique="TLA+ state machine of the per-thread zone cache: TLC design checks (abstract + implementation-shaped), TLC-generated TZ histories "
                          "replayed in child processes (incl. unshare -m namespaces), trace validation of the measured logs with timing bands",
                assumptions=["TLC 1.8 and its Json/IOUtils overrides",
                             "the host's /etc/localtime is UTC (checked at run time; otherwise the host families run in a private namespace that provides it) and "
                             "/usr/share/zoneinfo/Europe/Berlin has the 2021-03-28 transition (checked at run time)",
                             "wall clock (SystemTime) is not stepped during a history: runs whose wall and monotonic readings disagree by > 20 ms are repeated",
                             "/etc/localtime is a symlink into the zoneinfo directory or absent (localtime(5)); a regular file there is outside the model",
                             "histories are sequential: TZ is never written while another thread is inside a conversion (MC_CacheImpl_race documents what happens otherwise)",
                             "a replacement of /etc/localtime (Touch) is modelled although the statement only speaks of TZ; it is exercised only inside unshare -m"]),
}


# ------------------------------------------------------------------------------------------------------------------
def _V():
    m = sys.modules.get("__main__")
    if m is not None and hasattr(m, "run_tlc") and hasattr(m, "ToolFailure"):
        return m
    import verif
    return verif


def _tzchild(V):
    return os.environ.get("C18_TZCHILD") or V.harness_bin("tzchild")


# ------------------------------------------------------------------------------------------------------------------
# the world: TZif files are generated from the WORLD line of the specification (TzWorld.tla)
def _posix_off(o):
    a = abs(o)
    return ("-" if o > 0 else "") + "%d:%02d:%02d" % (a // 3600, a // 60 % 60, a % 60)


def tzif_bytes(t0, before, after, nb, na, pad=0):
    """A version-2 TZif file: one transition at t0 from (before, nb) to (after, na); footer = the last type as a fixed rule.
    pad > 0: that many earlier transitions INTO THE SAME `before` type, an hour apart (they change nothing; they make the file large -
    zic pads files with such entries too - and a file of any size is still that file)."""
    fixed = before == after

    def block(v64):
        if fixed:
            types, names, trans = [(before, 0, 0)], nb.encode() + b"\0", []
        else:
            types = [(before, 0, 0), (after, 0, len(nb) + 1)]
            names = nb.encode() + b"\0" + na.encode() + b"\0"
            trans = [(t0 - 3600 * (pad - k), 0) for k in range(pad)] + [(t0, 1)]
        hdr = b"TZif2" + b"\0" * 15 + struct.pack(">6I", 0, 0, 0, len(trans), len(types), len(names))
        body = b"".join(struct.pack(">q" if v64 else ">i", t) for t, _ in trans) + bytes(i for _, i in trans)
        body += b"".join(struct.pack(">iBB", o, d, i) for o, d, i in types) + names
        return hdr + body
    last = (before, nb) if fixed else (after, na)
    return block(False) + block(True) + ("\n%s%s\n" % (last[1], _posix_off(last[0]))).encode()


def build_world(world, root):
    zdir = os.path.join(root, "zones")
    shutil.rmtree(zdir, ignore_errors=True)
    os.makedirs(zdir)
    t0 = world["t0"]

    def zone_file(zid, path):
        z = world["zones"][zid]
        with open(path, "wb") as f:
            # zone B's file is larger than 64 KiB (9000 no-op transitions in front of the real one)
            f.write(tzif_bytes(t0 + z["t0"], z["before"], z["after"], z["nb"], z["na"], pad=9000 if zid == "B" else 0))
    for text, content in world["abs"].items():
        p = os.path.join(zdir, text)
        if content == world["garbage"]:
            with open(p, "wb") as f:
                f.write(b"this is not a TZif file\n" * 4)
        else:
            zone_file(content, p)
    for zid in ("S1", "S2"):
        zone_file(zid, os.path.join(zdir, zid + ".tzif"))
    return zdir


def tz_string(world, zdir, key):
    v = world["vals"][key]
    t = (":" if v["colon"] else "") + ((zdir + "/") if v["abs"] else "") + v["text"]
    return (" " + t) if v.get("pad") == "pre" else (t + " ") if v.get("pad") == "post" else t


def host_is_utc():
    try:
        b = open("/etc/localtime", "rb").read()
        if b[:4] != b"TZif":
            return False
        foot = b.rstrip(b"\n").rsplit(b"\n", 1)[-1]
        link = os.readlink("/etc/localtime") if os.path.islink("/etc/localtime") else ""
        return bool(re.fullmatch(rb"(UTC|GMT|UCT|Z|<[-+A-Za-z0-9]+>)-?0?", foot)) and b"," not in foot and "zoneinfo/" in link
    except OSError:
        return False


def berlin_ok(world):
    try:
        import zoneinfo, datetime
        z = zoneinfo.ZoneInfo("Europe/Berlin")
        t0 = world["t0"]
        m = world["zones"]["BER"]
        f = lambda t: datetime.datetime.fromtimestamp(t, z).utcoffset().total_seconds()
        return os.path.exists("/usr/share/zoneinfo/Europe/Berlin") and f(t0 - 1) == m["before"] and f(t0) == m["after"]
    except Exception:
        return False


# ------------------------------------------------------------------------------------------------------------------
# environments: on the host, or in a private mount namespace with its own /etc
NS_TARGETS = ["/usr/share/zoneinfo/Etc/GMT+1", "/usr/share/zoneinfo/Etc/GMT+2"]


def unshare_works(root):
    d = os.path.join(root, "ns", "probe", "etc")
    shutil.rmtree(os.path.dirname(d), ignore_errors=True)
    os.makedirs(d)
    os.symlink("/nonexistent/c18-probe", os.path.join(d, "localtime"))
    try:
        p = subprocess.run(["unshare", "-m", "sh", "-c", "mount --bind %s /etc && readlink /etc/localtime" % shlex.quote(d)],
                           stdout=subprocess.PIPE, stderr=subprocess.PIPE, text=True, timeout=20)
        ok = p.returncode == 0 and p.stdout.strip() == "/nonexistent/c18-probe" and all(os.path.isfile(t) for t in NS_TARGETS)
        # the host must be untouched
        return ok and (not os.path.islink("/etc/localtime") or os.readlink("/etc/localtime") != "/nonexistent/c18-probe")
    except Exception:
        return False


def env_of(sysseq, utc_on_host):
    if sysseq == ["S1", "S2"]:
        return "ns"
    if sysseq == ["NOZONE"]:
        return "nosys"
    if sysseq == ["UTC"]:
        return "plain" if utc_on_host else "utcns"
    raise ValueError(sysseq)


def launch(V, root, zdir, world, h):
    """Runs one history (dict with id, envk, sys, steps) in its own process; returns the list of logged events."""
    steps = []
    envk = h["envk"]
    # C18_JITTER=<seed>: robustness experiment - random artificial delays inside steps, as a loaded scheduler would cause
    jit = random.Random("%s-%s" % (os.environ["C18_JITTER"], h["id"])) if os.environ.get("C18_JITTER") else None
    cmd = [_tzchild(V), "-"]
    if envk != "plain":
        etc = os.path.join(root, "ns", str(h["id"]), "etc")
        shutil.rmtree(os.path.dirname(etc), ignore_errors=True)
        os.makedirs(etc)
        link = os.path.join(etc, "localtime")
        script = "mount --bind %s /etc" % shlex.quote(etc)
        if envk == "ns":
            os.symlink(NS_TARGETS[0], link)
            os.utime(link, (time.time() - 3600, time.time() - 3600), follow_symlinks=False)
            for z, t in zip(("S1", "S2"), NS_TARGETS):
                script += " && mount --bind %s %s" % (shlex.quote(os.path.join(zdir, z + ".tzif")), shlex.quote(t))
        elif envk == "utcns":
            os.symlink("/usr/share/zoneinfo/Etc/UTC", link)
        script += " && exec %s -" % shlex.quote(_tzchild(V))
        cmd = ["unshare", "-m", "sh", "-c", script]
    for s in h["steps"]:
        s = dict(s)
        for k in ("exp", "obs", "band", "stmt", "ver"):
            s.pop(k, None)
        if s["op"] == "setenv":
            s["tz"] = tz_string(world, zdir, s["v"])
        if s["op"] == "touch":
            s["link"] = os.path.join(root, "ns", str(h["id"]), "etc", "localtime")
            s["target"] = NS_TARGETS[1]
        if jit is not None and jit.random() < 0.3:
            s["delay_us"] = int(jit.choice([30_000, 150_000, 400_000, 700_000, 950_000, 1_050_000, 1_500_000]) * jit.uniform(0.8, 1.2))
        steps.append(s)
    inp = json.dumps(dict(hdr=dict(id=h["id"], fam=h["fam"], sys=h["sys"]), probe=world["t0"] + world["probe"], salt=h["id"], steps=steps))
    e = dict(os.environ)
    e.pop("TZ", None)
    p = subprocess.run(cmd, input=inp, stdout=subprocess.PIPE, stderr=subprocess.PIPE, text=True, env=e, timeout=120)
    if envk != "plain":
        shutil.rmtree(os.path.join(root, "ns", str(h["id"])), ignore_errors=True)
    if p.returncode != 0:
        raise V.ToolFailure("tzchild failed for history %s (rc %d): %s" % (h["id"], p.returncode, p.stderr[-1500:]))
    ev = [json.loads(l) for l in p.stdout.splitlines() if l.strip()]
    if len(ev) != len(steps) + 1:
        raise V.ToolFailure("tzchild logged %d events for %d steps" % (len(ev), len(steps)))
    return ev


def screen(ev):
    """'clock' if the wall clock was stepped, 'slow' if the run overshot its sleeps by more than SLACK_US, else 'nominal'."""
    st = ev[1:]
    for a in st:
        if abs((a["w1"] - a["w0"]) - (a["m1"] - a["m0"])) > CLOCK_US or a["w1"] < a["w0"]:
            return "clock"
    for a, b in zip(st, st[1:]):
        if abs((b["w0"] - a["w1"]) - (b["m0"] - a["m1"])) > CLOCK_US or b["w0"] < a["w1"]:
            return "clock"
    sleeps = sum(a.get("ms", 0) for a in st if a["op"] == "wait") * 1000
    return "slow" if (st[-1]["w1"] - st[0]["w0"]) - sleeps > SLACK_US else "nominal"


def run_history(V, root, zdir, world, h):
    """Up to ATTEMPTS runs until one is nominal; returns (events of the last run, its screening, number of runs)."""
    for k in range(ATTEMPTS):
        ev = launch(V, root, zdir, world, h)
        s = screen(ev)
        if s == "nominal":
            return ev, s, k + 1
    return ev, s, ATTEMPTS


# ------------------------------------------------------------------------------------------------------------------
def generate(V, fam, cfg, seed, nsim):
    """Runs Gen_LocalCache for one family (nsim: number of simulated histories, None: all of them).
    Returns (world, {stripped steps json: [alternative step lists]}, sys, tlc result)."""
    if nsim:
        r = V.run_tlc("Gen_LocalCache", cfg, env={"C18_SIM": "1"}, simulate="num=%d" % nsim, extra=["-seed", str(seed), "-depth", "12"],
                      timeout=600, tag="Gen_LocalCache-%s-%d" % (fam, os.getpid()))
    else:
        r = V.run_tlc("Gen_LocalCache", cfg, timeout=1800, heap="4g", tag="Gen_LocalCache-%s-%d" % (fam, os.getpid()))
    ms = re.search(r"The number of states generated: (\d+)", r["out"])
    if ms and not r["states"]:
        r["states"] = r["distinct"] = int(ms.group(1))
    unq = lambda s: json.loads(json.loads('"' + s + '"'))
    wm = re.search(r'<<"WORLD", "(.*)">>\s*$', r["out"], re.M)
    lines = [m.group(1) for m in re.finditer(r'<<"REPLAY", "(.*)">>\s*$', r["out"], re.M)]
    if V.tlc_failed(r) or not wm or not lines or "is violated" in r["out"]:
        V.log(r["out"][-4000:])
        raise V.ToolFailure("generator Gen_LocalCache/%s produced no histories (or the specification's expectations violate its own statement)" % cfg)
    world = unq(wm.group(1))
    hist = {}
    sysseq = None
    for s in lines:
        o = unq(s)
        sysseq = o["sys"]
        key = json.dumps([{k: v for k, v in st.items() if k not in ("exp", "obs", "band", "stmt")} for st in o["steps"]], sort_keys=True)
        alts = hist.setdefault(key, [])
        if o["steps"] not in alts:
            alts.append(o["steps"])
    return world, hist, sysseq, r


def validate_trace(V, tdir, episodes, cfg="Trace_LocalCache.cfg"):
    """Runs Trace_LocalCache on chunks of episodes. Returns (tlc results, rejected [(episode, line in episode, event)])."""
    shutil.rmtree(tdir, ignore_errors=True)
    os.makedirs(tdir)
    nchunks = max(1, min(V.MAX_JVMS, math.ceil(len(episodes) / 300)))
    chunks = [episodes[i::nchunks] for i in range(nchunks)]
    files = []
    for k, ch in enumerate(chunks):
        p = os.path.join(tdir, "Trace_LocalCache.%04d.ndjson" % (k + 1))
        starts = {}
        with open(p, "w") as f:
            n = 0
            for epi in ch:
                starts[n + 1] = epi
                for e in epi["events"]:
                    f.write(json.dumps({k2: v for k2, v in e.items() if k2 not in ("m0", "m1")}) + "\n")
                    n += 1
        files.append((p, starts, n))

    def one(a):
        p, starts, n = a
        r = V.run_tlc("Trace_LocalCache", cfg, env={"TRACE": p}, timeout=1500, deque=True,
                      tag="%s-%s-%d" % (cfg[:-4], os.path.basename(p).split(".")[1], os.getpid()))
        r["chunk"] = p
        return r
    with ThreadPoolExecutor(max_workers=V.MAX_JVMS) as ex:
        results = list(ex.map(one, files))
    rejected = []
    for (p, starts, n), r in zip(files, results):
        m = re.search(r'<<"EPISODES", (\d+), (\d+)>>', r["out"])
        if V.tlc_failed(r) or not m or int(m.group(1)) != len(starts) or int(m.group(2)) != n or "No error has been found" not in r["out"]:
            V.log(r["out"][-4000:])
            raise V.ToolFailure("trace validation of %s did not run to completion" % p)
        acc = set(int(x) for x in re.findall(r'<<"ACCEPT", (\d+)>>', r["out"]))
        far = {}
        for a, b in re.findall(r'<<"AT", (\d+), (\d+)>>', r["out"]):
            far[int(a)] = max(far.get(int(a), 0), int(b))
        for s, epi in starts.items():
            if s not in acc:
                bad = far.get(s, s) + 1 - s          # index within the episode (0 = start event) of the first unexplained event
                rejected.append((epi, bad, epi["events"][bad] if bad < len(epi["events"]) else None))
    return results, rejected


def pinned_steps(seq):
    out = []
    for s in seq:
        if s[0] == "setenv":
            out.append(dict(op="setenv", v=s[1]))
        elif s[0] == "wait":
            out.append(dict(op="wait", ms=s[1]))
        elif s[0] == "conv":
            out.append(dict(op="conv", dir=s[1], thr=s[2]))
        else:
            out.append(dict(op=s[0]))
    return out


def extra(tier, seed, outdir):
    V = _V()
    t_start = time.time()
    # a directory of this run alone (zone files, scratch /etc trees, trace chunks): a second check running at the same
    # time must not be able to pull the zone files from under the children
    root = os.path.join(os.path.abspath(V.WORK), "C18.run-%d" % os.getpid())
    shutil.rmtree(root, ignore_errors=True)
    os.makedirs(root)
    if not os.path.exists(_tzchild(V)):
        raise V.ToolFailure("harness binary tzchild is missing")
    notes = []
    # --- R, step 1: the specification generates the histories and what each conversion must observe -----------------
    with ThreadPoolExecutor(max_workers=V.MAX_JVMS) as ex:
        nsim = lambda f: f[2] if tier == "quick" else f[3]
        gens = list(ex.map(lambda f: generate(V, f[0], f[1], seed, nsim(f)), FAMILIES))
    world = gens[0][0]
    zdir = build_world(world, root)
    utc_host = host_is_utc()
    can_ns = unshare_works(root)
    ber = berlin_ok(world)
    if not can_ns:
        notes.append("unshare -m (private mount namespace) is not available: the families that need a non-UTC system zone, a replacement of "
                     "/etc/localtime or a missing /etc/localtime were SKIPPED")
    if not utc_host:
        notes.append("the host's /etc/localtime is not a symlink to a UTC zone: the host families ran inside a private namespace that provides one"
                     if can_ns else "the host's /etc/localtime is not UTC and unshare is unavailable: host families SKIPPED")
    if not ber:
        notes.append("/usr/share/zoneinfo/Europe/Berlin is missing or lacks the 2021-03-28 transition: histories naming it were SKIPPED")
    hists, hid, gen_stats, skipped = [], 0, [], 0
    for (fam, cfg, nq, nt, what), (w, hist, sysseq, r) in zip(FAMILIES, gens):
        envk = env_of(sysseq, utc_host)
        n_before = len(hists)
        for key, alts in sorted(hist.items()):
            steps = json.loads(key)
            if (envk != "plain" and not can_ns) or (not ber and any(s.get("v") in ("name", "colonName") for s in steps)):
                skipped += 1
                continue
            hid += 1
            hists.append(dict(id=hid, fam=fam, envk=envk, sys=sysseq, steps=steps, alts=alts))
        gen_stats.append(dict(family=fam, what=what, cfg=cfg, histories=len(hist), run=len(hists) - n_before, environment=envk,
                              states=r["states"], distinct=r["distinct"], wall=round(r["wall"], 1),
                              mode=("simulation num=%d seed=%d" % (nsim((fam, cfg, nq, nt)), seed)) if nsim((fam, cfg, nq, nt)) else "exhaustive"))
    for envname, seqs in PINNED.items():
        sysseq = {"ns": ["S1", "S2"], "nosys": ["NOZONE"], "plain": ["UTC"]}[envname]
        envk = env_of(sysseq, utc_host)
        for seq in seqs:
            steps = pinned_steps(seq)
            if (envk != "plain" and not can_ns) or (not ber and any(s.get("v") in ("name", "colonName") for s in steps)):
                skipped += 1
                continue
            hid += 1
            hists.append(dict(id=hid, fam="pinned-" + envname, envk=envk, sys=sysseq, steps=steps, alts=None))
    # --- R, step 2: one process per history, many at a time (they mostly sleep) ------------------------------------
    conc = int(os.environ.get("C18_CONCURRENCY", "96" if tier == "quick" else "200"))
    random.Random(seed).shuffle(hists)
    t_run = time.time()
    with ThreadPoolExecutor(max_workers=conc) as ex:
        runs = list(ex.map(lambda h: run_history(V, root, zdir, world, h), hists))
    t_run = time.time() - t_run
    compared, inconclusive, reruns, band_steps, conv_obs, clock_runs = 0, 0, 0, 0, 0, 0
    episodes, rmis = [], {}
    for h, (ev, scr, n) in zip(hists, runs):
        reruns += n - 1
        obs = [(e.get("obs") if "panic" not in e else dict(panic=e["panic"])) for e in ev[1:] if e["op"] == "conv"]
        conv_obs += len(obs)
        if scr == "clock":
            clock_runs += 1          # the wall clock was stepped during every attempt: nothing can be said about this run
            continue
        episodes.append(dict(hist=h, events=ev, screening=scr))
        if h["alts"] is None:
            continue
        band_steps += sum(1 for s in h["alts"][0] if s.get("band"))
        if scr != "nominal":
            inconclusive += 1        # the nominal expectation does not apply to this run; trace validation (measured times) judges it
            continue
        compared += 1
        exps = [[s["obs"] for s in alt if s["op"] == "conv"] for alt in h["alts"]]
        if obs not in exps:
            bad = next(i for i in range(len(obs)) if all(x[i] != obs[i] for x in exps) or i == len(obs) - 1)
            convs = [i for i, s in enumerate(h["steps"]) if s["op"] == "conv"]
            rmis[h["id"]] = dict(observed=obs, first_deviating_step=convs[bad] + 1, alternatives=len(h["alts"]))
    # --- T: the measured logs against Trace_LocalCache; what the strict cache model rejects is re-judged against the bare statement
    t_tr = time.time()
    tres, rej_strict = validate_trace(V, os.path.join(root, "trace"), episodes)
    tres2, rej_stmt = ([], [])
    if rej_strict:
        tres2, rej_stmt = validate_trace(V, os.path.join(root, "trace_stmt"), [x[0] for x in rej_strict], cfg="Trace_LocalCache_stmt.cfg")
    t_tr = time.time() - t_tr
    strict_ids = {x[0]["hist"]["id"]: x for x in rej_strict}
    stmt_ids = {x[0]["hist"]["id"]: x for x in rej_stmt}
    lost = [i for i in rmis if i not in strict_ids]
    if lost:
        h = next(x for x in hists if x["id"] == lost[0])
        raise V.ToolFailure("history %s deviates from the generator's expectation but its log is accepted by Trace_LocalCache: the two readings of "
                            "the specification disagree (steps %s, observed %s)" % (lost[0], json.dumps(h["alts"][0]), json.dumps(rmis[lost[0]]["observed"])))
    items, deviations = [], []
    for i, (epi, bad, e) in strict_ids.items():
        h = epi["hist"]
        rec = dict(op="C18.history", family=h["fam"], environment=h["envk"], sys=h["sys"], steps=(h["alts"][0] if h["alts"] else h["steps"]),
                   rejected_step=bad, rejected_event=e, log=epi["events"], screening=epi["screening"])
        if i in rmis:
            rec["replay"] = rmis[i]
        if i in stmt_ids:
            rec["rejected_step"], rec["rejected_event"] = stmt_ids[i][1], stmt_ids[i][2]
            rec["cache_model_rejects_at_step"] = bad
            items.append(dict(event=rec))
        else:
            deviations.append(rec)
    V.log("  R %d histories run in child processes (%d in private namespaces; %.1fs, %d at a time, %d re-runs): %d compared with the "
          "generator's expectation, %d judged by trace validation only (%d slow runs, %d pinned), %d deviate"
          % (len(hists), sum(1 for h in hists if h["envk"] != "plain"), t_run, conc, reruns, compared,
             inconclusive + sum(1 for h in hists if h["alts"] is None), inconclusive, sum(1 for h in hists if h["alts"] is None), len(rmis)))
    V.log("  T %d episodes (%d events) validated against Trace_LocalCache in %d chunks (%.1fs): %d rejected by the cache model, of these %d "
          "violate the statement" % (len(episodes), sum(len(e["events"]) for e in episodes), len(tres), t_tr, len(rej_strict), len(rej_stmt)))
    if deviations:
        notes.append("%d histories deviate from the cache model of LocalCache.tla in a way the statement of C18 allows (e.g. a fresh answer inside the "
                     "reuse window, or a stale one more than 1.1 s after the last CHECK but less than 1.1 s after the change): not a violation; first: %s"
                     % (len(deviations), json.dumps({k: v for k, v in deviations[0].items() if k != "log"})[:700]))
    if clock_runs:
        notes.append("%d histories were discarded because the wall clock was stepped during each of their %d attempts" % (clock_runs, ATTEMPTS))
    for n in notes:
        V.log("  NOTE " + n)
    samples = []
    for h, (ev, scr, n) in list(zip(hists, runs))[:2]:
        samples.append(dict(history=dict(family=h["fam"], environment=h["envk"], steps=(h["alts"][0] if h["alts"] else h["steps"])), child_log=ev))
    info = dict(states=sum(g[3]["distinct"] for g in gens) + sum(r["distinct"] for r in tres + tres2),
                transitions=sum(g[3]["states"] for g in gens) + sum(r["states"] for r in tres + tres2),
                traces=len(hists) + len(episodes), evaluations=conv_obs, distinct=len(hists), samples=samples,
                generators=gen_stats, histories_run=len(hists), histories_skipped=skipped,
                histories_in_private_namespace=sum(1 for h in hists if h["envk"] != "plain"),
                compared_with_expectation=compared, slow_runs_judged_by_trace_only=inconclusive, reruns=reruns,
                steps_inside_fuzzy_band=band_steps, conversions_observed=conv_obs,
                episodes_trace_validated=len(episodes), events_trace_validated=sum(len(e["events"]) for e in episodes),
                rejected_by_cache_model=len(rej_strict), rejected_by_statement=len(rej_stmt), cache_model_deviations_allowed_by_statement=len(deviations),
                replay_deviations=len(rmis), discarded_clock_stepped=clock_runs, unshare_available=can_ns, host_localtime_is_utc=utc_host, berlin_ok=ber,
                concurrency=conc, wall_children_s=round(t_run, 1), wall_trace_s=round(t_tr, 1), wall_extra_s=round(time.time() - t_start, 1), notes=notes)
    if not items and not os.environ.get("C18_KEEP"):
        shutil.rmtree(root, ignore_errors=True)
    else:
        V.log("  (run directory kept: %s)" % root)
    return items, info


# ------------------------------------------------------------------------------------------------------------------
def selftest(V):
    """Binding: a conforming log is accepted; one corrupted observation is rejected, exactly that episode at that event."""
    root = os.path.join(V.WORK, "C18-selftest")
    shutil.rmtree(root, ignore_errors=True)
    os.makedirs(root)
    world, hist, sysseq, r = generate(V, "vals", "Gen_LocalCache_vals.cfg", 1, 3)
    zdir = build_world(world, root)
    hs = [dict(id=i + 1, fam="pinned-plain", envk="plain", sys=["UTC"], steps=pinned_steps(s), alts=None) for i, s in enumerate(PINNED["plain"])]
    eps = [dict(hist=h, events=launch(V, root, zdir, world, h), screening="-") for h in hs]
    _, rej = validate_trace(V, os.path.join(root, "t1"), eps)
    ok = not rej
    k = next(i for i, e in enumerate(eps[1]["events"]) if e["op"] == "conv")
    eps[1]["events"][k] = dict(eps[1]["events"][k], obs=dict(single=eps[1]["events"][k]["obs"]["single"] + 1))
    _, rej = validate_trace(V, os.path.join(root, "t2"), eps)
    ok = ok and len(rej) == 1 and rej[0][0] is eps[1] and rej[0][1] == k
    V.log("selftest C18: %s" % ("ok" if ok else "FAILED"))
    shutil.rmtree(root, ignore_errors=True)
    return 0 if ok else 2


SELFTESTS = [selftest]
