"""C19 - Weekday, Month and weekday-set algebra is consistent."""
DESIGN = {
    "Enums": dict(module="MC_Enums", quick="MC_Enums_quick.cfg", thorough="MC_Enums_thorough.cfg", workers=4),
}
GEN = {
    # every next/next_back interleaving of every (set, start): 7 * 3^7 = 15 309 maximal behaviours
    "EnumsIter": dict(module="Gen_EnumsIter", quick="Gen_EnumsIter.cfg", kind="enums"),
    # unary ops on all 7 / 12 / 128 operands, binary ops on all 128^2 pairs, per-day ops on all 128 x 7,
    # numeric conversions on the boundary corpus through every integer type, text parsing on the name corpus
    "EnumsOps": dict(module="Gen_EnumsOps", quick="Gen_EnumsOps.cfg", kind="enums"),
}
PROPS = {
    "C19": dict(design=["Enums"], drive="C19", gens=["EnumsIter", "EnumsOps"], exhaustive=True,
                level_text="Enums.tla models weekdays as 0..6, months as 1..12 and a weekday set as a TLA+ set; MC_Enums checks the property's own statement "
                           "exhaustively on the specification (7- and 12-cycles, numbering/distance bijections, conversions inverse on valid values and None "
                           "elsewhere incl. values a narrowing cast would wrap, parsing = names in any ASCII case, set algebra on all 128x128x7, iteration order "
                           "and every next/next_back interleaving). TLC then enumerates the whole domain as REPLAY lines - all 15 309 maximal iterator "
                           "behaviours with the remaining sequence after every step, every unary/binary/per-day set operation, every weekday/month function, "
                           "the numeric corpus through every integer type of FromPrimitive and TryFrom<u8>, the text corpus through both FromStr - and the "
                           "harness executes each on the real chrono and compares every step. Seeded random integers and strings are judged by Trace_Enums.",
                technique="TLA+ Enums spec: exhaustive TLC design check; exhaustive TLC-generated behaviours replayed on the real code; random conversions by trace validation",
                assumptions=["TLC 1.8 and its Json module", "isize/usize are 64-bit on the test machine",
                             "the replayer builds a WeekdaySet with FromIterator and projects it with contains() on the 7 days; both are themselves replayed on all 128 sets",
                             "floating-point arguments of FromPrimitive (from_f32/from_f64) are not integers and are not covered"]),
}
