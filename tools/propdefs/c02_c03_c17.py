"""C02 (timestamps), C03 (adding/subtracting elapsed time), C17 (rounding): Instant.tla / Rounding.tla."""
DESIGN = {
    "Instant": dict(module="MC_Instant", quick="MC_Instant_quick.cfg", thorough="MC_Instant_thorough.cfg", workers=8),
}
_A = ["TLC 1.8 and its Json/IOUtils overrides", "projection of NaiveDateTime to (day number, second of day, nanosecond field) and of TimeDelta to its nanosecond count"]
PROPS = {
    "C02": dict(lemmas=["ClockLaws_C02"], design=["Instant", "Calendar"], drive="C02",
                level_text="Instant.tla defines the nanosecond position of a date-time since 1970 over big integers; MC_Instant checks round trips, floor semantics, the exact "
                           "domain and the i64-nanosecond window against documented anchors; every recorded from_timestamp*/timestamp*/SystemTime call on a boundary lattice "
                           "and random counts (all four units, all nanosecond-field classes) is validated by TLC.",
                technique="TLA+ Instant spec over BigInt: TLC design check + trace validation of recorded timestamp conversions", assumptions=_A),
    "C03": dict(gens=["Session_C03"], design=["Instant", "TimeOfDay"], drive="C03",
                level_text="AddDt/SinceDt in Instant.tla define elapsed-time arithmetic exactly (BigInt nanoseconds, refusal exactly outside the range); MC_Instant checks exactness, "
                           "b + (a - b) = a, antisymmetry and whole-day truncation; recorded checked and operator forms on NaiveDateTime, NaiveDate, DateTime<FixedOffset> and the day/week "
                           "iterator episodes near both range ends are validated by TLC.",
                technique="TLA+ Instant spec: TLC design check + trace validation of checked/operator arithmetic and iterator episodes", assumptions=_A),
    "C17": dict(lemmas=["ClockLaws_C17"], design=["Instant"], drive="C17",
                level_text="Rounding.tla characterises truncation / rounding up / rounding (greatest multiple not after, least not before, nearest with ties up) over big integers; "
                           "the harness supplies the multiple's index as a hint that the spec verifies; error classification and sub-second rounding incl. carry and leap seconds are judged by TLC.",
                technique="TLA+ Rounding spec with verified hints: TLC design check + trace validation of DurationRound/SubsecRound calls", assumptions=_A),
}
