"""C20 - serialized forms deserialize to the same value."""
DESIGN = {
    "Serde": dict(module="MC_Serde", quick="MC_Serde.cfg", thorough="MC_Serde.cfg", workers=4),
}
GEN = {}
PROPS = {
    "C20": dict(design=["Show", "Rfc3339", "Serde"], drive="C20", exhaustive=False,
                level_text="Serde.tla defines the JSON string forms (Debug text of date / time / naive date-time, RFC 3339 AutoSi+Z for zone-aware date-times, English names) "
                           "over Show / Rfc3339, and the sixteen timestamp helper modules as (unit, optional, naive) over BigInt nanosecond instants: exact floor timestamp, "
                           "representable range, precision kept. MC_Serde model-checks the timestamp arithmetic (floor bracket, cut-to-unit read-back, range ends, i64-ns "
                           "window) and pins the forms to documented literals; MC_Show / MC_Rfc3339 cover the string forms. Trace validation judges, with the crate built with "
                           "the serde feature, serde_json text, serde_json and bincode round trips of every serializable type, the integer each helper module writes, its "
                           "read-back through both formats, None through the optional modules, and deserialisation of signed / unsigned integers on a boundary lattice "
                           "(range ends +-1 in every unit, i64 / u64 extremes) with out-of-range => Err.",
                technique="TLA+ spec of serialized forms over BigInt instants: TLC design checks + trace validation of recorded serde_json / bincode calls (serde feature on)",
                assumptions=["TLC 1.8 with the Json/IOUtils community modules", "harness built with chrono's serde feature; serde_json 1 (self-describing) and bincode 1.3 (positional)",
                             "64-bit integers travel as base-1000 limb records; text as Unicode code points",
                             "leap seconds through a timestamp module: only the written integer (one of the admissible timestamps) and absence of a panic are required, as the statement excepts them",
                             "DateTime<Local> is exercised with the sandbox's system zone (UTC)",
                             "open known findings: C20-headroom-roundtrip, C20-subminute-offset-instant"]),
}


def _selftest(V):
    from textselftest import corruption_selftest, bump
    C = [
        ("JSON text of a date", lambda e: e["op"] == "ser" and e["ty"] == "date", lambda e: bump(e["json"], -2)),
        ("Z replaced by +00:00 in a UTC date-time's JSON", lambda e: e["op"] == "ser" and e["ty"] == "utc", lambda e: e.__setitem__("json", e["json"][:-2] + [43, 48, 48, 58, 48, 48, 34])),
        ("month serialised as a short name", lambda e: e["op"] == "ser" and e["ty"] == "month" and len(e["json"]) > 5, lambda e: e.__setitem__("json", e["json"][:4] + [34])),
        ("UTC value one nanosecond off after serde_json", lambda e: e["op"] == "serde" and e["ty"] == "utc" and e["fmt"] == "json" and e["u"]["frac"] < 999999999, lambda e: bump(e["back"]["ok"], "frac")),
        ("offset lost through bincode", lambda e: e["op"] == "serde" and e["ty"] == "fixed" and e["fmt"] == "bin" and e["off"] % 60 == 0 and e["off"] != 0 and "ok" in e["back"], lambda e: e["back"]["ok"].__setitem__("off", 0)),
        ("duration one nanosecond off", lambda e: e["op"] == "serde" and e["ty"] == "dur" and len(e["d"]["mag"]) > 0, lambda e: bump(e["back"]["ok"]["d"]["mag"], 0, 1 if e["back"]["ok"]["d"]["mag"][0] < 999 else -1)),
        ("weekday deserialises to another day", lambda e: e["op"] == "serde" and e["ty"] == "weekday", lambda e: e["back"]["ok"].__setitem__("w", (e["w"] + 1) % 7)),
        ("ts_milliseconds writes one more", lambda e: e["op"] == "ts" and e["unit"] == "ms" and e["v"]["frac"] < 10**9 and len(e["ser"]["ok"]["mag"]) > 0, lambda e: bump(e["ser"]["ok"]["mag"], 0, 1 if e["ser"]["ok"]["mag"][0] < 999 else -1)),
        ("ts_microseconds_option reads back milliseconds only", lambda e: e["op"] == "ts" and e["unit"] == "us" and e["opt"] == 1 and e["v"]["frac"] < 10**9 and e["v"]["frac"] % 10**6 >= 1000, lambda e: e["json_back"]["ok"].__setitem__("frac", e["v"]["frac"] - e["v"]["frac"] % 10**6)),
        ("naive ts_seconds positional read-back differs", lambda e: e["op"] == "ts" and e["unit"] == "s" and e["naive"] == 1 and e["v"]["frac"] < 10**9 and e["v"]["secs"] > 0, lambda e: bump(e["bin_back"]["ok"], "secs", -1)),
        ("out-of-range integer accepted", lambda e: e["op"] == "ts_de" and "err" in e["r"], lambda e: e.__setitem__("r", {"ok": {"n": 719163, "secs": 0, "frac": 0}})),
        ("in-range integer refused by a nanosecond module", lambda e: e["op"] == "ts_de" and e["fmt"] == "json" and e["unit"] == "ns" and "ok" in e["r"], lambda e: e.__setitem__("r", {"err": 1})),
        ("negative integer read one second late", lambda e: e["op"] == "ts_de" and "ok" in e["r"] and e["x"]["neg"] and e["r"]["ok"]["secs"] < 86399, lambda e: bump(e["r"]["ok"], "secs")),
        ("None comes back as a value", lambda e: e["op"] == "ts_none", lambda e: e.__setitem__("bin_back", {"ok": {"n": 719163, "secs": 0, "frac": 0}})),
    ]
    return corruption_selftest(V, "C20", "C20", "Trace_Serde", C)


SELFTESTS = [_selftest]
