"""C06 - durations are exact signed nanosecond counts within a closed range."""
DESIGN = {
    "Duration": dict(module="MC_Duration", quick="MC_Duration_quick.cfg", thorough="MC_Duration_thorough.cfg", workers=8),
}
PROPS = {
    "C06": dict(lemmas=["ClockLaws_C06"], gens=["Session_C06"], design=["Duration"], drive="C06", trace_cfgs={"Trace_Duration": "Trace_Duration.cfg"},
                level_text="Duration.tla models a TimeDelta as a big-integer nanosecond count with the closed range +-(2^63-1) ms; MC_Duration checks closure, exactness, "
                           "accessor, division-tolerance and order laws plus documentation anchors on the lattice of boundaries; every recorded TimeDelta call (constructors, "
                           "checked and operator arithmetic, accessors, std conversions, Display, comparisons) and random operator chains on a register under the invariant "
                           "'never outside the range' are validated by TLC.",
                technique="TLA+ Duration spec over BigInt: TLC design check + trace validation of recorded TimeDelta calls and operator-chain sessions under a range invariant",
                assumptions=["TLC 1.8 and its Json/IOUtils overrides", "projection of TimeDelta to num_seconds*10^9+subsec_nanos (cross-checked by constructor and accessor events)"]),
}
