"""C05 - local time follows the zone data: offsets, gaps and folds."""
DESIGN = {
    "TzModel": dict(module="MC_TzModel", quick="MC_TzModel_quick.cfg", thorough="MC_TzModel_thorough.cfg", workers=8),
    "PosixTz": dict(module="MC_PosixTz", quick="MC_PosixTz_quick.cfg", thorough="MC_PosixTz_thorough.cfg", workers=4),
}
GEN = {
    "Tzif": dict(module="Gen_Tzif", quick="Gen_Tzif_quick.cfg", thorough="Gen_Tzif_thorough.cfg", kind="tzif",
                 simulate_quick="num=250", simulate_thorough="num=5000", workers=1),
}
PROPS = {
    "C05": dict(design=["TzModel", "PosixTz"], drive="C05", gens=["Tzif"], exhaustive=False,
                level_text="TzModel.tla defines the offset at an instant (last transition at or before it / rule after the last / first type before the first) and "
                           "the wall-clock lookup by candidate offsets, so that gaps and folds emerge from the zone data; PosixTz.tla defines rule days, yearly "
                           "transitions and the same lookup for POSIX rules. MC_TzModel model-checks the statement of C05 on all small zones of a scaled time line "
                           "(round trip, once/twice/never against brute-force occurrence counts, earliest first, abbreviation-only transitions, the open boundary "
                           "second, refinement by the implementation-shaped linear scan under its spacing assumption); MC_PosixTz does the same around both yearly "
                           "transitions of a rule family and pins the rule days to real-world dates. Every recorded lookup of chrono's zone reader on system "
                           "zoneinfo files (zone decoded from the file bytes by Tzif.Classify inside the specification), on random POSIX rules (rule obtained by "
                           "PosixTz.Parse) and on TLC-generated synthetic TZif files is validated against these definitions, through the guarded hook and through "
                           "Local with TZ set on a fresh thread.",
                technique="TLA+ zone model (candidate-set wall-clock lookup): TLC design checks, trace validation of hook and public-route lookups on system zones and "
                          "random POSIX rules, replay of TLC-generated TZif files",
                assumptions=["TLC 1.8 and its Json/IOUtils overrides",
                             "harness parses the derived Debug output of chrono's private TimeZone (Zone::describe) into the zone structure; the specification "
                             "compares it with its own decoding of the file bytes / TZ string",
                             "transition-index hints supplied by the harness are verified by the specification (two comparisons), never trusted",
                             "the POSIX rule after the last transition only depends on the position in the 400-year cycle (Calendar periodicity), so the "
                             "specification evaluates it in the cycle starting 1970",
                             "C05's quantifier: wall-clock lookups through a rule are judged only for rules whose transitions lie more than one day inside the "
                             "calendar year (RuleInScope); the single boundary second T + offset_before of an offset-changing transition is unconstrained",
                             "leap-second (right/) files are outside the property"]),
}


# ------------------------------------------------------------------------------------------------
# selftest: corrupt recorded events by hand and demand that TLC reports exactly those (binding is demonstrated, not assumed)
def _corrupt_and_check(V, workload, module, edits, tag):
    """edits: list of (predicate(event), mutate(event)); each is applied to the first not yet corrupted event (of any chunk) that
    satisfies the predicate.  Returns 0 iff TLC rejects exactly the corrupted events of the chunks that were touched."""
    import os, json, glob, shutil
    src = os.path.join(V.WORK, "selftest_" + tag + "_src")
    dst = os.path.join(V.WORK, "selftest_" + tag)
    V.run_drive(workload, "quick", 20261001, src)
    shutil.rmtree(dst, ignore_errors=True)
    os.makedirs(dst)
    chunks = sorted(glob.glob(os.path.join(src, module + ".*.ndjson")))
    loaded, want = {}, set()
    for pred, mut in edits:
        done = False
        for c in chunks:
            evs = loaded.get(c) or [json.loads(l) for l in open(c)]
            for i, e in enumerate(evs):
                if (c, i + 1) not in want and pred(e):
                    mut(e)
                    want.add((c, i + 1))
                    loaded[c] = evs
                    done = True
                    break
            if done:
                break
        if not done:
            V.log("selftest %s: no event for an edit" % tag)
            return 1
    for c, evs in loaded.items():
        with open(os.path.join(dst, os.path.basename(c)), "w") as f:
            for e in evs:
                f.write(json.dumps(e) + "\n")
    _, rejects, n = V.validate_chunks(dst)
    got = sorted((os.path.basename(r["chunk"]), r["index"]) for r in rejects)
    exp = sorted((os.path.basename(c), i) for c, i in want)
    ok = got == exp
    V.log("selftest %-8s %d events in %d chunk(s), corrupted %s, rejected %s: %s" % (tag, n, len(loaded), [i for _, i in exp], [i for _, i in got], "ok" if ok else "FAILED"))
    shutil.rmtree(src, ignore_errors=True)
    shutil.rmtree(dst, ignore_errors=True)
    return 0 if ok else 1


def _st_zone(V):
    def swap(e):
        e["r"]["o1"], e["r"]["o2"] = e["r"]["o2"], e["r"]["o1"]
    return _corrupt_and_check(V, "C05", "Trace_TzZone", [
        (lambda e: e["op"] == "at" and "ok" in e["r"], lambda e: e["r"]["ok"].__setitem__("off", e["r"]["ok"]["off"] + 1)),          # offset off by one second
        (lambda e: e["op"] == "at" and "ok" in e["r"] and e["i"] > 3, lambda e: e["r"]["ok"].__setitem__("dst", not e["r"]["ok"]["dst"])),  # DST flag
        (lambda e: e["op"] == "local" and e["r"]["k"] == "amb" and not e.get("ov"), swap),                                           # fold returned latest first
        (lambda e: e["op"] == "local" and e["r"]["k"] == "none", lambda e: e["r"].update(k="single", o1=e["cand"][0]["o"])),         # an answer inside a gap
        (lambda e: e["op"] == "local" and e["r"]["k"] == "single" and e["cand"][0]["i"] > 5 and len(set(c["i"] for c in e["cand"])) == 1,
         lambda e: e["r"].update(k="none", o1=0)),                                                                                  # no answer for an existing time (away from the open boundary second)
        (lambda e: e["op"] == "rt" and e["i"] > 7, lambda e: e.__setitem__("off", e["off"] + 3600)),                                 # wall clock not instant + offset
        (lambda e: e["op"] == "at" and e["i"] > 9, lambda e: e.__setitem__("i", e["i"] - 1)),                                        # a wrong hint is not believed
    ], "TzZone")


def _st_rule(V):
    def swap(e):
        e["r"]["o1"], e["r"]["o2"] = e["r"]["o2"], e["r"]["o1"]
    return _corrupt_and_check(V, "C05", "Trace_TzRule", [
        (lambda e: e["op"] == "rat", lambda e: e["r"]["ok"].__setitem__("off", e["r"]["ok"]["off"] - 1)),
        (lambda e: e["op"] == "rlocal" and e["r"]["k"] == "amb" and not e.get("ov"), swap),
        (lambda e: e["op"] == "rlocal" and e["r"]["k"] == "none" and not e.get("ov"), lambda e: e["r"].update(k="single", o1=-18000)),
        (lambda e: e["op"] == "rrt" and e["r"]["k"] == "single", lambda e: e["r"].update(k="none", o1=0)),
    ], "TzRule")


SELFTESTS = [_st_zone, _st_rule]
