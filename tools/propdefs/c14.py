"""C14 - field resolution never returns a value that contradicts a supplied field."""
DESIGN = {
    "Parsed": dict(module="MC_Parsed", quick="MC_Parsed_quick.cfg", thorough="MC_Parsed_thorough.cfg", workers=6, timeout=3000),
}
GEN = {}
PROPS = {
    "C14": dict(design=["Parsed"], drive="C14", exhaustive=False,
                level_text="Parsed.tla models format::Parsed as a field map with the documented range table and double-set rule per setter and the five "
                           "resolutions as relations: O1 (a successful result agrees with every supplied field, incl. timestamp with the leap-second latitude "
                           "and the offset), O2 (fields derived from one value, determinate year groups, a documented combination => exactly that value), O3a "
                           "(derived but insufficient / century only => NotEnough), O3b (exact years: the unique date that agrees with all fields, or "
                           "Impossible/OutOfRange). MC_Parsed checks on every subset of the 14 date fields of a value set that the obligations are never "
                           "contradictory, admit exactly the value when sufficient and determinate, and that the pivot reading is the only agreeing date. "
                           "The harness records episodes Set*;To* on the real code (derived subsets biased around the sufficient combinations, one field "
                           "contradicting / out of range / set twice, independent random values, every subset of the date fields, every subset of the "
                           "time/timestamp/offset fields; thorough: a fixed 1-in-16 sample of the 2^21 subsets of all 21 fields, all of them with VERIF_C14_FULL=1) "
                           "and TLC judges every setter result and every resolution.",
                technique="TLA+ Parsed state machine: TLC design check over all date-field subsets + trace validation of recorded Set*/To* episodes",
                assumptions=["TLC 1.8 and its Json/IOUtils overrides",
                             "field values are derived with chrono's own accessors (judged by C01); the specification re-checks that every register field agrees "
                             "with the claimed value before applying O2/O3a, so a wrong accessor weakens, never falsifies, a verdict",
                             "time zones for to_datetime_with_timezone are FixedOffset only"]),
}
