"""Unbounded arithmetic lemmas (spec/lemmas/ClockLaws.tla, Apalache) attached to the properties whose defining equations they concern,
and the non-vacuity demonstration: the module's Mutant* statements are false, Apalache must refute each."""
import os, shutil, subprocess

LEMMAS = {
    "ClockLaws_C02": dict(file="ClockLaws.tla", invs=["UnitFloor", "NormalForm"]),
    "ClockLaws_C04": dict(file="ClockLaws.tla", invs=["WallInverse"]),
    "ClockLaws_C06": dict(file="ClockLaws.tla", invs=["NormalForm", "TruncAccessor"]),
    "ClockLaws_C07": dict(file="ClockLaws.tla", invs=["TimeWrap"]),
    "ClockLaws_C17": dict(file="ClockLaws.tla", invs=["Rounding"]),
}


def _mutants(V):
    rc = 0
    for inv in ["MutantRoundStrict", "MutantTruncating", "MutantWallNoCarry"]:
        d = os.path.join(V.WORK, "apa", "selftest-%s-%d" % (inv, os.getpid()))
        shutil.rmtree(d, ignore_errors=True)
        os.makedirs(d)
        shutil.copy(os.path.join(V.FLAT, "ClockLaws.tla"), d)
        p = subprocess.run(["timeout", "600", "apalache-mc", "check", "--length=0", "--inv=" + inv, "ClockLaws.tla"], cwd=d, stdout=subprocess.PIPE, stderr=subprocess.STDOUT, text=True)
        ok = "invariant" in p.stdout and "violated" in p.stdout
        shutil.rmtree(d, ignore_errors=True)
        V.log("SELFTEST lemma mutant %-20s %s" % (inv, "ok - refuted by Apalache" if ok else "FAIL - not refuted"))
        rc |= 0 if ok else 1
    return rc


SELFTESTS = [_mutants]
