"""The client-session machine (spec/gen/Gen_Session.tla): TLC simulates chains of API calls over the registers date / naive date-time /
offset / duration; every behaviour is replayed on the real code step by step (harness/src/r/session.rs). Attached to the properties whose
operations it chains; each attachment uses its own simulation seed."""
_G = dict(module="Gen_Session", quick="Gen_Session.cfg", thorough="Gen_Session.cfg", kind="session", simulate_quick="num=40", simulate_thorough="num=1200", extra=["-depth", "16"], timeout=3000)
GEN = {
    "Session_C03": dict(_G, seed_add=3),
    "Session_C04": dict(_G, seed_add=4),
    "Session_C06": dict(_G, seed_add=6),
    "Session_C08": dict(_G, seed_add=8),
}
