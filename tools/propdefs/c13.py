"""C13 - parsing with a format string inverts formatting with it."""
import importlib.util, os

DESIGN = {
    "ParseFmt": dict(module="MC_ParseFmt", quick="MC_ParseFmt_quick.cfg", thorough="MC_ParseFmt_thorough.cfg", workers=8),
}
GEN = {
    "ParseFmt": dict(module="Gen_ParseFmt", quick="Gen_ParseFmt_quick.cfg", thorough="Gen_ParseFmt_thorough.cfg", kind="parsefmt", workers=8),
}
PROPS = {
    "C13": dict(design=["StrftimeItems", "ParseFmt"], drive="C13", gens=["ParseFmt"], exhaustive=False,
                level_text="ParseFmt.tla (on top of StrftimeItems/Strftime) defines, at item level, which format strings determine the value unambiguously "
                           "(Unambiguous: the fields suffice for the target type; every item printed narrower than the reader may read is followed by "
                           "something that cannot continue it), which values a format can express (Expressible: unseparated %Y only 0..9999, %y alone only "
                           "1970..2069, %C%y only 0..9999, %s no leap second, offsets that round below 24:00, ...), the precision it keeps (Project) and the "
                           "generated family UnambiguousFamily (date block in calendar / ordinal / ISO-week / %U-%W form x time block incl. 12-hour clock and "
                           "all eight fraction specifiers x offset / timestamp block x separators x padding modifier; %#z read-only pairs). TLC checks on the "
                           "family itself that Project is stable (renders to the same text, is expressible, is a fixed point) and injective on look-alike "
                           "values, and that every invertible specifier and every numeric specifier x modifier occurs in some member. R: TLC enumerates the "
                           "family x a value lattice and prints the admissible texts, the expected parsed value and perturbed texts; a replayer executes "
                           "format / parse_from_str on the real code. T: the Rust driver composes formats of the same family with per-item random modifiers "
                           "and separators, formats the C12 value lattice, parses with parse_from_str and parse_and_remainder (as the formatted and every "
                           "narrower type) and records perturbed texts (letter case of names / am-pm, surplus white space) with item-level descriptors; TLC "
                           "re-derives text, perturbed texts and expected values from the specification and judges every event.",
                technique="TLA+ item-level specification of format/parse inversion (Unambiguous / Expressible / Project over the strftime spec): TLC design "
                          "check of the projection laws on the generated family, TLC-generated (format, value, expected text, expected parse) behaviours "
                          "replayed on the real code, and trace validation of recorded format -> parse_from_str round trips incl. perturbed texts",
                assumptions=["TLC 1.8 and its Json/IOUtils overrides",
                             "all assumptions of C12 (the text half of every round trip is judged by the C12 oracle)",
                             "Unambiguous is a sufficient condition chosen by the specification (a conservative reading of 'separators between variable-width "
                             "numbers'); formats outside it are not judged. A format with %s may carry only a fraction and an offset besides",
                             "a leap second is regarded as not expressible by %s (the statement's 'every value the format can express'); a %s-only format "
                             "read as DateTime<FixedOffset> returns the instant at offset +00:00",
                             "offsets are projected to the printed minutes (:30 rounds away from zero) resp. whole hours for %:::z read by %#z",
                             "perturbations: letter case of month / weekday names and am-pm, surplus white space appended where the format has white space; "
                             "literal text is not perturbed",
                             "bounded: the family is finite (~35 date x ~31 time blocks and their products), values come from the C12 lattice; default locale only"]),
}

_spec = importlib.util.spec_from_file_location("propdefs_c12_for_c13", os.path.join(os.path.dirname(os.path.abspath(__file__)), "c12.py"))
_c12 = importlib.util.module_from_spec(_spec)
_spec.loader.exec_module(_c12)


def _c13_mutate(lines):
    k = [i for i, e in enumerate(lines) if e["op"] == "rt" and e["parsed"] and "ok" in e["parsed"][0]["r"]][40]
    got = lines[k]["parsed"][0]["r"]["ok"]
    if "secs" in got:
        got["secs"] = (got["secs"] + 60) % 86400
    else:
        got["n"] += 1
    return k + 1


SELFTESTS = [lambda V: _c12._corrupt_selftest(V, "C13", "Trace_ParseFmt", _c13_mutate, "C13 a parsed value off by one minute / day")]
