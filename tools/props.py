"""Per-property configuration of the orchestrator: which design checks (D), driver workload and trace
specification (T) and behaviour generators (R) decide each property.  The definitions live in
tools/propdefs/*.py (one file per property or group); each may define PROPS, DESIGN, GEN dicts, a
`selftests` list of callables and `replayers`.

PROPS[id] keys: design (names in DESIGN), drive (harness workload name), trace_cfgs ({module: cfg} for
trace modules that need a non-default cfg), gens (names in GEN), extra (callable(tier, seed, outdir)
-> (mismatch items, info dict)), level, level_text, level_note, technique, assumptions, exhaustive.
DESIGN[name]: module, quick, thorough (cfg files), workers, heap, timeout.
GEN[name]: module, quick, thorough (cfg), kind (harness replayer), simulate_quick/simulate_thorough
(e.g. "num=500" for -simulate), workers.
"""
import json, os, glob, importlib.util

HOOK_COMMITS = ["563de8a"]
DESIGN, GEN, PROPS, LEMMAS, SELFTESTS = {}, {}, {}, {}, []

_here = os.path.dirname(os.path.abspath(__file__))
for _p in sorted(glob.glob(os.path.join(_here, "propdefs", "*.py"))):
    _spec = importlib.util.spec_from_file_location("propdefs_" + os.path.basename(_p)[:-3], _p)
    _m = importlib.util.module_from_spec(_spec)
    _spec.loader.exec_module(_m)
    DESIGN.update(getattr(_m, "DESIGN", {}))
    GEN.update(getattr(_m, "GEN", {}))
    LEMMAS.update(getattr(_m, "LEMMAS", {}))
    PROPS.update(getattr(_m, "PROPS", {}))
    SELFTESTS += getattr(_m, "SELFTESTS", [])


def selftest(V):
    rc = 0
    for t in SELFTESTS:
        rc |= t(V)
    return rc


def replay(V, path):
    """Re-judges one saved violation: a rejected trace event is validated again by its trace specification (exit 1 if it is
    still rejected, 0 if the specification now explains it); a replay mismatch is printed with the expected and observed step."""
    doc = json.load(open(path))
    item = doc["item"]
    print(json.dumps(item, indent=1)[:4000])
    if "module" in item and "event" in item:
        d = os.path.join(V.WORK, "replay")
        os.makedirs(d, exist_ok=True)
        f = os.path.join(d, "%s.0001.ndjson" % item["module"])
        # stateful trace modules need the whole chunk up to the event; use it when it still exists
        lines = None
        if os.path.exists(item.get("chunk", "")):
            allv = open(item["chunk"]).read().splitlines()
            if len(allv) >= item["index"] and json.loads(allv[item["index"] - 1]) == item["event"]:
                lines = allv[:item["index"]]
        lines = lines or [json.dumps(item["event"])]
        open(f, "w").write("\n".join(lines) + "\n")
        cfg = PROPS.get(doc["property"], {}).get("trace_cfgs", {}).get(item["module"], "Trace.cfg")
        r = V.run_tlc(item["module"], cfg, env={"TRACE": f}, timeout=600)
        rejected = ('<<"REJECT", %d>>' % len(lines)) in r["out"]
        print("REPLAY property=%s module=%s: the event is %s by the specification" % (doc["property"], item["module"], "REJECTED" if rejected else "accepted"))
        return 1 if rejected else 0
    print("REPLAY property=%s: a replay/child-process mismatch; re-run the check to reproduce it against the current code" % doc["property"])
    return 1
