"""Per-property configuration of the orchestrator: which design checks (D), driver workload and trace
specification (T) and behaviour generators (R) decide each property.  The definitions live in
tools/propdefs/*.py (one file per property or group); each may define PROPS, DESIGN, GEN dicts, a
`selftests` list of callables and `replayers`.

PROPS[id] keys: design (names in DESIGN), drive (harness workload name), trace_cfgs ({module: cfg} for
trace modules that need a non-default cfg), gens (names in GEN), extra (callable(tier, seed, outdir)
-> (mismatch items, info dict)), level, level_text, level_note, technique, assumptions, exhaustive.
DESIGN[name]: module, quick, thorough (cfg files), workers, heap, timeout.
GEN[name]: module, quick, thorough (cfg), kind (harness replayer), simulate_quick/simulate_thorough
(e.g. "num=500" for -simulate), workers.
"""
import json, os, glob, importlib.util

HOOK_COMMITS = ["563de8a"]
DESIGN, GEN, PROPS, LEMMAS, SELFTESTS = {}, {}, {}, {}, []

_here = os.path.dirname(os.path.abspath(__file__))
for _p in sorted(glob.glob(os.path.join(_here, "propdefs", "*.py"))):
    _spec = importlib.util.spec_from_file_location("propdefs_" + os.path.basename(_p)[:-3], _p)
    _m = importlib.util.module_from_spec(_spec)
    _spec.loader.exec_module(_m)
    DESIGN.update(getattr(_m, "DESIGN", {}))
    GEN.update(getattr(_m, "GEN", {}))
    LEMMAS.update(getattr(_m, "LEMMAS", {}))
    PROPS.update(getattr(_m, "PROPS", {}))
    SELFTESTS += getattr(_m, "SELFTESTS", [])


def selftest(V):
    rc = 0
    for t in SELFTESTS:
        rc |= t(V)
    return rc


def replay(V, path):
    item = json.load(open(path))
    print(json.dumps(item, indent=1))
    return 0
