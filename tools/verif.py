#!/usr/bin/env python3
"""Orchestrator of the chrono model-based verification (see /verif/DESIGN.md section 4).

  verif.py setup                         build the harness, run every design check, selftest
  verif.py check <ID> [--tier quick|thorough]
  verif.py design [name ...]             run bounded design checks of the specification (job D)
  verif.py selftest                      corrupt recorded events and demand that TLC rejects exactly those
  verif.py replay <file>                 re-judge one saved violation

Exit codes: 0 = property held on everything explored (KNOWN-FINDING lines possible),
            1 = at least one `VIOLATION property=<id> replay=<path>` line,
            2 = tool failure (build error, TLC crash, timeout) - never reported as a violation.
"""
import sys, os, json, subprocess, time, re, hashlib, shutil, glob, random
from concurrent.futures import ThreadPoolExecutor

ROOT = os.path.dirname(os.path.dirname(os.path.abspath(__file__)))
SPEC = os.path.join(ROOT, "spec")
_ALT = bool(os.environ.get("VERIF_REPO"))          # experiments against a scratch tree: nothing under evidence/ or work/ is touched
WORK = os.path.join(ROOT, ("work-alt" + os.environ.get("VERIF_LANE", "")) if _ALT else "work")
FLAT = os.path.join(WORK, "flat")
HARNESS = os.path.join(ROOT, "harness")
EVID = os.path.join(WORK, "evidence") if _ALT else os.path.join(ROOT, "evidence")
REPLAYS = os.path.join(WORK, "replays") if _ALT else os.path.join(ROOT, "replays")
JAR = "/opt/veriftools/tla/tla2tools.jar:/opt/veriftools/tla/CommunityModules-deps.jar"
MAX_JVMS = int(os.environ.get("VERIF_JVMS", "14"))

sys.path.insert(0, os.path.dirname(os.path.abspath(__file__)))


class ToolFailure(Exception):
    pass


def log(*a):
    print(*a, flush=True)


# ------------------------------------------------------------------------------------------------
# specification files: spec/** is organised in directories; TLC wants one directory
def flatten_spec():
    os.makedirs(FLAT, exist_ok=True)
    want = {}
    for p in glob.glob(os.path.join(SPEC, "**", "*"), recursive=True):
        if os.path.isfile(p) and (p.endswith(".tla") or p.endswith(".cfg")):
            b = os.path.basename(p)
            if b in want:
                raise ToolFailure("duplicate spec file name " + b)
            want[b] = p
    for b, p in want.items():
        q = os.path.join(FLAT, b)
        data = open(p, "rb").read()
        if not os.path.exists(q) or open(q, "rb").read() != data:
            with open(q, "wb") as f:
                f.write(data)
    for q in os.listdir(FLAT):
        if q not in want and (q.endswith(".tla") or q.endswith(".cfg")):
            os.remove(os.path.join(FLAT, q))


def spec_hash():
    h = hashlib.sha256()
    for p in sorted(glob.glob(os.path.join(SPEC, "**", "*.tla"), recursive=True)) + sorted(glob.glob(os.path.join(SPEC, "**", "*.cfg"), recursive=True)):
        h.update(p.encode())
        h.update(open(p, "rb").read())
    return h.hexdigest()[:16]


# ------------------------------------------------------------------------------------------------
_tlc_counter = [0]


def run_tlc(module, cfg, env=None, workers=1, timeout=900, extra=(), heap="2g", tag=None, deque=False, simulate=None):
    """Runs TLC on FLAT/<module>.tla with FLAT/<cfg>; returns dict(out, rc, states, distinct, wall)."""
    _tlc_counter[0] += 1
    tag = tag or "%s-%d-%d" % (module, os.getpid(), _tlc_counter[0])
    meta = os.path.join(WORK, "meta", tag)
    shutil.rmtree(meta, ignore_errors=True)
    os.makedirs(meta, exist_ok=True)
    jopts = ["-XX:+UseParallelGC", "-Xss1g", "-Xmx" + heap]
    if deque:
        jopts.append("-Dtlc2.tool.queue.IStateQueue=StateDeque")
    cmd = ["timeout", str(timeout), "java"] + jopts + ["-cp", JAR, "tlc2.TLC", "-workers", str(workers),
           "-metadir", meta, "-cleanup", "-noGenerateSpecTE", "-config", cfg]
    if simulate:
        cmd += ["-simulate", simulate]
    cmd += list(extra) + [module + ".tla"]
    e = dict(os.environ)
    e.pop("JAVA_TOOL_OPTIONS", None)
    if env:
        e.update(env)
    t0 = time.time()
    p = subprocess.run(cmd, cwd=FLAT, env=e, stdout=subprocess.PIPE, stderr=subprocess.STDOUT, text=True, errors="replace")
    wall = time.time() - t0
    shutil.rmtree(meta, ignore_errors=True)
    out = p.stdout
    r = dict(out=out, rc=p.returncode, wall=wall, states=0, distinct=0, module=module)
    m = re.search(r"(\d+) states generated, (\d+) distinct states found", out)
    if m:
        r["states"], r["distinct"] = int(m.group(1)), int(m.group(2))
    else:
        m = re.search(r"The number of states generated: (\d+)", out)          # simulation mode
        if m:
            r["states"] = r["distinct"] = int(m.group(1))
    if p.returncode == 124:
        raise ToolFailure("TLC timeout on %s (%ss)" % (module, timeout))
    return r


def tlc_failed(r):
    """A TLC run that did not finish normally (parse error, evaluation error, crash)."""
    o = r["out"]
    if "Model checking completed" in o or "Finished computing initial states" in o and "states generated" in o and r["rc"] in (0, 12, 13):
        pass
    bad = ("Parsing or semantic analysis failed" in o or "TLC threw an unexpected exception" in o
           or "Error: Evaluating" in o or "was not able to" in o or "java.lang." in o and "Exception" in o
           or "The exception was" in o or "Error: In evaluation" in o or "Error: The" in o and "attempted" in o.lower())
    return bad


# ------------------------------------------------------------------------------------------------
def harness_dir():
    """/verif/harness (path dependency on /repo). For experiments only, VERIF_REPO=<dir> builds a copy of the harness
    under work/ whose chrono dependency points to <dir>, so that a scratch tree can be checked while /repo is in use."""
    alt = os.environ.get("VERIF_REPO")
    if not alt:
        return HARNESS
    d = os.path.join(WORK, "harness-alt")
    os.makedirs(d, exist_ok=True)
    subprocess.run(["rsync", "-a", "--delete", "--exclude", "target", HARNESS + "/", d + "/"], check=True)
    t = open(os.path.join(d, "Cargo.toml")).read().replace('path = "/repo"', 'path = "%s"' % alt)
    open(os.path.join(d, "Cargo.toml"), "w").write(t)
    return d


def build_harness():
    t0 = time.time()
    p = subprocess.run(["cargo", "build", "--release", "--offline"], cwd=harness_dir(), stdout=subprocess.PIPE, stderr=subprocess.STDOUT, text=True)
    if p.returncode != 0:
        log(p.stdout[-6000:])
        raise ToolFailure("harness build failed (does /repo still compile with --cfg chronotope_chrono_verif?)")
    return time.time() - t0


def harness_bin(name):
    return os.path.join(HARNESS if not os.environ.get("VERIF_REPO") else os.path.join(WORK, "harness-alt"), "target", "release", name)


def run_drive(workload, tier, seed, outdir, timeout=3000):
    shutil.rmtree(outdir, ignore_errors=True)
    os.makedirs(outdir, exist_ok=True)
    p = subprocess.run(["timeout", str(timeout), harness_bin("drive"), workload, "--tier", tier, "--seed", str(seed), "--out", outdir],
                       cwd=ROOT, stdout=subprocess.PIPE, stderr=subprocess.PIPE, text=True, errors="replace")
    if p.returncode != 0:
        log(p.stdout[-3000:])
        log(p.stderr[-6000:])
        raise ToolFailure("drive %s failed (rc %d): the harness itself crashed" % (workload, p.returncode))
    summary = {}
    for line in p.stdout.splitlines():
        if line.startswith("SUMMARY "):
            summary = json.loads(line[8:])
    return summary


# ------------------------------------------------------------------------------------------------
COVERAGE = ["all" if os.environ.get("VERIF_COVERAGE") else ""]
LIBS = {"BigInt", "Text", "TraceLib", "TextForms", "StrLit", "Calendar"}


def parse_coverage(out):
    """{(module, location): count} for the expressions of the specification modules (libraries excluded)."""
    cov = {}
    for m in re.finditer(r"^[ |]*line (\d+), col (\d+) to line (\d+), col (\d+) of module (\w+): (\d+)", out, re.M):
        mod = m.group(5)
        if mod in LIBS:
            continue
        k = (mod, "%s:%s-%s:%s" % m.group(1, 2, 3, 4))
        cov[k] = cov.get(k, 0) + int(m.group(6))
    return cov


def coverage_summary(results):
    tot = {}
    for r in results:
        for k, v in r.get("cov", {}).items():
            tot[k] = tot.get(k, 0) + v
    by = {}
    for (mod, loc), v in tot.items():
        d = by.setdefault(mod, dict(expressions=0, never_evaluated=[]))
        d["expressions"] += 1
        if v == 0 and len(d["never_evaluated"]) < 25:
            d["never_evaluated"].append(loc)
    return by


def validate_chunks(outdir, trace_cfgs=None, timeout=1500):
    """Runs the trace specification named by each chunk file's prefix. Returns (results, rejects)."""
    chunks = sorted(glob.glob(os.path.join(outdir, "*.ndjson")))
    chunks = [c for c in chunks if os.path.getsize(c) > 0 and not os.path.basename(c).startswith("_")]
    results = []

    def one(c):
        module = os.path.basename(c).split(".")[0]
        cfg = (trace_cfgs or {}).get(module, "Trace.cfg")
        deque = cfg != "Trace.cfg"
        # coverage costs a factor 3-4: with VERIF_COVERAGE every chunk is measured, in the thorough tier every 4th one
        # (the summary is then a lower bound: "never evaluated" may list expressions that other chunks did evaluate)
        want_cov = COVERAGE[0] == "all" or (COVERAGE[0] == "sample" and chunks.index(c) % 4 == 0)
        r = run_tlc(module, cfg, env={"TRACE": c}, timeout=timeout, extra=["-coverage", "1"] if want_cov else [], deque=deque)
        r["chunk"] = c
        if want_cov:
            r["cov"] = parse_coverage(r["out"])
            r["out"] = re.sub(r"The coverage statistics at.*?(?=\n[A-Z<][^\n]*\n(?![ |<]))", "", r["out"], flags=re.S) if len(r["out"]) > 2000000 else r["out"]
        return r

    with ThreadPoolExecutor(max_workers=MAX_JVMS) as ex:
        results = list(ex.map(one, chunks))
    rejects = []
    events = 0
    for r in results:
        lines = open(r["chunk"]).read().splitlines()
        n = len(lines)
        events += n
        m = re.search(r'<<"CONSUMED", (\d+)>>', r["out"])
        if not m or int(m.group(1)) != n or tlc_failed(r):
            log(r["out"][-4000:])
            raise ToolFailure("trace validation did not consume %s (module %s)" % (r["chunk"], r["module"]))
        for mm in re.finditer(r'<<"REJECT", (\d+)>>', r["out"]):
            i = int(mm.group(1))
            rejects.append(dict(chunk=r["chunk"], index=i, module=r["module"], event=json.loads(lines[i - 1])))
    return results, rejects, events


# ------------------------------------------------------------------------------------------------
def load_known():
    p = os.path.join(ROOT, "known_findings.json")
    if not os.path.exists(p):
        return []
    return json.load(open(p))["findings"]


def match_known(entry, item):
    """item: a rejected event / mismatching replay step (dict). Narrow matching: every key of `match` must be equal
    (nested dicts are matched recursively)."""
    def sub(pat, val):
        if isinstance(pat, dict):
            return isinstance(val, dict) and all(k in val and sub(v, val[k]) for k, v in pat.items())
        return pat == val
    return sub(entry.get("match", {"__never__": 1}), item)


def classify(pid, items):
    """Splits items into (violations, known) using open entries of known_findings.json for this property."""
    open_entries = [e for e in load_known() if e.get("status") == "open" and e["property"] == pid]
    known, viol = {}, []
    for it in items:
        ev = it.get("event", it)
        hit = None
        for e in open_entries:
            if match_known(e, ev):
                hit = e
                break
        if hit:
            known.setdefault(hit["id"], []).append(it)
        else:
            viol.append(it)
    return viol, known, open_entries


def save_replay(pid, item):
    os.makedirs(REPLAYS, exist_ok=True)
    blob = json.dumps(item, sort_keys=True)
    h = hashlib.sha256(blob.encode()).hexdigest()[:12]
    p = os.path.join(REPLAYS, "%s-%s.json" % (pid, h))
    with open(p, "w") as f:
        json.dump(dict(property=pid, item=item), f, indent=1, sort_keys=True)
    return p


def write_evidence(pid, tier, seed, level, coverage, assumptions, wall, violations):
    os.makedirs(EVID, exist_ok=True)
    ev = dict(property_id=pid, tier=tier, seed=seed, level=level, coverage=coverage, assumptions=assumptions,
              wall_s=round(wall, 2), violations=violations)
    with open(os.path.join(EVID, pid + ".json"), "w") as f:
        json.dump(ev, f, indent=1, sort_keys=True)


# ------------------------------------------------------------------------------------------------
def run_design(names, tier):
    """Bounded design checks (job D). Each entry: (module, cfg_quick, cfg_thorough, workers)."""
    import props
    res = []
    for name in names:
        d = props.DESIGN[name]
        cfg = d["quick"] if tier == "quick" else d.get("thorough", d["quick"])
        r = run_tlc(d["module"], cfg, workers=d.get("workers", 4), timeout=d.get("timeout", 1800), heap=d.get("heap", "4g"),
                    extra=["-coverage", "1"] if os.environ.get("VERIF_COVERAGE") else [])
        ok = "Model checking completed. No error has been found." in r["out"]
        if not ok:
            log(r["out"][-5000:])
            raise ToolFailure("design check %s (%s) failed: the specification itself violates its stated property or does not evaluate" % (name, cfg))
        res.append(dict(name=name, module=d["module"], cfg=cfg, states=r["states"], distinct=r["distinct"], wall=round(r["wall"], 1)))
        log("  D %-22s %-28s %9d states %8d distinct %6.1fs" % (name, cfg, r["states"], r["distinct"], r["wall"]))
    return res


def run_lemmas(names):
    """Scale-free lemmas discharged by Apalache for unbounded integers (spec/lemmas). A lemma that is not proved is a
    defect of the specification, i.e. a tool failure, never a violation of the code."""
    import props
    jobs = []
    for name in names:
        L = props.LEMMAS[name]
        for inv in L["invs"]:
            jobs.append((name, L["file"], inv))

    def one(job):
        name, f, inv = job
        d = os.path.join(WORK, "apa", "%s-%s-%d" % (name, inv, os.getpid()))
        shutil.rmtree(d, ignore_errors=True)
        os.makedirs(d)
        shutil.copy(os.path.join(FLAT, f), d)
        t0 = time.time()
        p = subprocess.run(["timeout", "600", "apalache-mc", "check", "--length=0", "--inv=" + inv, f], cwd=d, stdout=subprocess.PIPE, stderr=subprocess.STDOUT, text=True)
        ok = "The outcome is: NoError" in p.stdout
        shutil.rmtree(d, ignore_errors=True)
        if not ok:
            log(p.stdout[-3000:])
            raise ToolFailure("lemma %s.%s was not discharged by Apalache" % (name, inv))
        return dict(lemma=name, inv=inv, wall=round(time.time() - t0, 1))

    with ThreadPoolExecutor(max_workers=4) as ex:
        res = list(ex.map(one, jobs))
    for r in res:
        log("  L %-22s %-20s proved for unbounded integers (Apalache, %.1fs)" % (r["lemma"], r["inv"], r["wall"]))
    return res


def run_generators(pid, gens, tier, seed, outdir):
    """Replay direction (job R): TLC prints REPLAY lines; the harness replays them on the real code."""
    import props
    allres, mism, total = [], [], 0
    for g in gens:
        d = props.GEN[g]
        cfg = d["quick"] if tier == "quick" else d.get("thorough", d["quick"])
        sim = d.get("simulate_quick") if tier == "quick" else d.get("simulate_thorough")
        r = run_tlc(d["module"], cfg, workers=d.get("workers", 1), timeout=d.get("timeout", 1800), heap=d.get("heap", "4g"),
                    simulate=(sim.replace("SEED", str(seed)) if sim else None), extra=((["-seed", str(seed + d.get("seed_add", 0))] + d.get("extra", [])) if sim else d.get("extra", [])))
        ok = "No error has been found" in r["out"] or (sim and "Progress" in r["out"]) or sim
        lines = [m.group(1) for m in re.finditer(r'<<"REPLAY", "(.*)">>\s*$', r["out"], re.M)]
        if tlc_failed(r) or not lines:
            log(r["out"][-4000:])
            raise ToolFailure("generator %s produced no behaviours" % g)
        f = os.path.join(outdir, "_gen_%s.ndjson" % g)
        with open(f, "w") as fh:
            for s in lines:
                fh.write(s.encode().decode("unicode_escape") if "\\" in s else s)
                fh.write("\n")
        p = subprocess.run(["timeout", "3000", harness_bin("replay"), d["kind"], f], cwd=ROOT, stdout=subprocess.PIPE, stderr=subprocess.PIPE, text=True, errors="replace")
        if p.returncode != 0:
            log(p.stdout[-3000:]); log(p.stderr[-5000:])
            raise ToolFailure("replay %s crashed" % g)
        summ = {}
        for line in p.stdout.splitlines():
            if line.startswith("MISMATCH "):
                mism.append(dict(gen=g, event=json.loads(line[9:])))
            elif line.startswith("SUMMARY "):
                summ = json.loads(line[8:])
        total += len(lines)
        allres.append(dict(gen=g, behaviours=len(lines), states=r["states"], distinct=r["distinct"], wall=round(r["wall"], 1), replay=summ,
                           sample=json.loads(open(f).readline())))
        log("  R %-22s %8d behaviours replayed, %d mismatches  (%d states, %.1fs)" % (g, len(lines), len([m for m in mism if m['gen'] == g]), r["distinct"], r["wall"]))
    return allres, mism, total


def check(pid, tier, seed):
    import props
    P = props.PROPS[pid]
    t0 = time.time()
    flatten_spec()
    bt = build_harness()
    # vacuity guard: with VERIF_COVERAGE=1 (any tier) or VERIF_COVERAGE=sample the per-expression evaluation counts of the trace
    # specifications go into the evidence; it is off by default because TLC's coverage mode is several times slower and pathological
    # on the recursive BigInt operators (a 15 000-event chunk of C02 did not finish in 25 minutes)
    if os.environ.get("VERIF_COVERAGE") == "sample":
        COVERAGE[0] = "sample"
    log("[%s] tier=%s seed=%d  (harness build %.1fs)" % (pid, tier, seed, bt))
    outdir = os.path.join(WORK, pid)
    # D
    dres = run_design(P.get("design", []), tier)
    lres = run_lemmas(P.get("lemmas", []))
    # T
    summary, tres, rejects, events = {}, [], [], 0
    if P.get("drive"):
        summary = run_drive(P["drive"], tier, seed, outdir)
        tres, rejects, events = validate_chunks(outdir, P.get("trace_cfgs"))
        log("  T %d events in %d chunks validated, %d rejected" % (events, len(tres), len(rejects)))
    else:
        shutil.rmtree(outdir, ignore_errors=True)
        os.makedirs(outdir, exist_ok=True)
    # R
    gres, mism, behaviours = [], [], 0
    if P.get("gens"):
        gres, mism, behaviours = run_generators(pid, P["gens"], tier, seed, outdir)
    # extra python-side engines (e.g. C18 child processes)
    extra = {}
    if P.get("extra"):
        extra_items, extra = P["extra"](tier, seed, outdir)
        mism += extra_items
    items = rejects + mism
    viol, known, open_entries = classify(pid, items)
    for e in open_entries:
        if e["id"] in known:
            log("KNOWN-FINDING: property=%s %s [%s; %d occurrence(s) this run]" % (pid, e["what"], e["id"], len(known[e["id"]])))
    shown = 0
    for it in viol:
        if shown < 25:
            path = save_replay(pid, it if "event" in it else dict(event=it))
            log("VIOLATION property=%s replay=%s" % (pid, path))
            if shown < 5:
                log("    " + json.dumps(it.get("event", it))[:600])
        shown += 1
    if shown > 25:
        log("  (... %d more violations of %s not listed)" % (shown - 25, pid))
    # evidence
    ops = {}
    samples = []
    for r in tres[:1]:
        for line in open(r["chunk"]).read().splitlines()[:3]:
            samples.append(json.loads(line))
    for r in tres:
        for line in open(r["chunk"]):
            try:
                o = json.loads(line).get("op", "?")
            except Exception:
                o = "?"
            ops[o] = ops.get(o, 0) + 1
    for g in gres:
        samples.append(dict(replayed_behaviour=g["sample"]))
    if extra.get("samples"):
        samples += extra["samples"]
    states = sum(d["distinct"] for d in dres) + sum(r["distinct"] for r in tres) + sum(g["distinct"] for g in gres) + extra.get("states", 0)
    trans = sum(d["states"] for d in dres) + sum(r["states"] for r in tres) + sum(g["states"] for g in gres) + extra.get("transitions", 0)
    cov = dict(states=states, transitions=trans,
               traces_validated_against_impl=len(tres) + behaviours + extra.get("traces", 0),
               samples=samples[:6] or [dict(note="no samples")],
               evaluations=events + behaviours + extra.get("evaluations", 0),
               distinct_nontrivial=len(ops) + behaviours + extra.get("distinct", 0) if (events + behaviours + extra.get("evaluations", 0)) else 0,
               rule="T: one event per call on the real code, judged by the TLA+ action of the same name (events per action in events_by_action); "
                    "R: behaviours enumerated by TLC and replayed on the real code; D: bounded model checking of the specification",
               design_checks=dres, lemmas=lres, obligations=len(lres), discharged=len(lres), events_validated=events, events_by_action=ops, rejected_events=len(rejects),
               spec_coverage=coverage_summary(tres), behaviours_replayed=behaviours, generators=[{k: v for k, v in g.items() if k != "sample"} for g in gres],
               replay_mismatches=len(mism), driver_summary=summary, known_findings_seen=sorted(known.keys()),
               exhaustive=bool(P.get("exhaustive", False)), extra={k: v for k, v in extra.items() if k != "samples"})
    wall = time.time() - t0
    write_evidence(pid, tier, seed, P.get("level", "model_checking"), cov, P.get("assumptions", []), wall, len(viol))
    log("[%s] %s  (%.1fs)" % (pid, "OK" if not viol else "%d VIOLATION(S)" % len(viol), wall))
    return 1 if viol else 0


# ------------------------------------------------------------------------------------------------
def selftest():
    import props
    flatten_spec()
    build_harness()
    return props.selftest(sys.modules[__name__])


def main():
    a = sys.argv[1:]
    if not a:
        print(__doc__)
        return 2
    tier = os.environ.get("VERIF_TIER", "quick")
    seed = int(os.environ.get("VERIF_SEED", "20261001"))
    if "--tier" in a:
        i = a.index("--tier")
        tier = a[i + 1]
        del a[i:i + 2]
    try:
        if a[0] == "check":
            return check(a[1], tier, seed)
        if a[0] == "setup":
            flatten_spec()
            bt = build_harness()
            log("harness built in %.1fs" % bt)
            import props
            run_design(sorted(props.DESIGN.keys()), "quick")
            return 0
        if a[0] == "design":
            flatten_spec()
            import props
            run_design(a[1:] or sorted(props.DESIGN.keys()), tier)
            return 0
        if a[0] == "selftest":
            return selftest()
        if a[0] == "replay":
            import props
            flatten_spec()
            build_harness()
            return props.replay(sys.modules[__name__], a[1])
    except ToolFailure as e:
        log("TOOL-FAILURE: %s" % e)
        return 2
    print(__doc__)
    return 2


if __name__ == "__main__":
    sys.exit(main())
