#!/usr/bin/env python3
"""Refreshes the generated seeded-change table inside DESIGN.md (between the SEEDTABLE markers)."""
import os, re, subprocess
ROOT = os.path.dirname(os.path.dirname(os.path.abspath(__file__)))
t = subprocess.check_output(["python3", os.path.join(ROOT, "tools", "seedtable.py")], text=True)
t = "\n".join(l for l in t.splitlines() if l.startswith("|"))
p = os.path.join(ROOT, "DESIGN.md")
s = open(p).read()
s = re.sub(r"<!-- SEEDTABLE -->.*<!-- /SEEDTABLE -->", "<!-- SEEDTABLE -->\n" + t.replace("\\", "\\\\") + "\n<!-- /SEEDTABLE -->", s, flags=re.S)
open(p, "w").write(s)
print("DESIGN.md seeded table refreshed (%d rows)" % (len(t.splitlines()) - 2))
